"""C11 — DMRG and AMEn products approximate the exact product within a small multiple of eps.

(a) kernels of the AMEn matrix product (`_compute_phi_*_AB`, `_compute_phi_*_x`, `_local_AB`) called directly on integer data and
    compared exactly with the Lean kernel models; (b) contract monitor (NOT a proof): fast_matvec, dmrg_hadamard, amen_mv, amen_mm vs the
    exact product, relative Frobenius error <= C*eps, for random / user guesses, orders 1..6, complex for DMRG."""
import numpy as np
import torch as tn
import torchtt
import torchtt._amen as AM
from common import Case, dense_tokens, core_tokens, out_dense, cores_tokens
from gen import int_tensor, dense_of
from util import J

LEVEL = "proof"
C_ERR = 10.0
RULE = ("(a) kernel cases on random integer Phi tensors / cores (ranks 1..3, rectangular modes 1..3); (b) monitor: compatible operand pairs of order 1..6 (quick 1..4), "
        "mode sizes 1..6, ranks 1..4, every fourth run an interior-singleton family (order 4..5, a size-1 row mode between rank-3x3 bonds), exact-rank and decaying-spectrum cores, eps in [1e-12,1e-1], random seeds, user guesses of rank 1..5, complex for the DMRG routines. "
        "Non-trivial: every kernel case with a rank>1, every monitor run.")
ASSUMPTIONS = ["the error inequality is MONITORED on the real code (kind K), constant C = %g" % C_ERR,
               "opt_einsum contracts what its subscripts say; QR/SVD contracts"]


def kernel_cases(rng, tier):
    cases = []
    for c in range(25 if tier == "quick" else 150):
        r, a, b = rng.randint(1, 3), rng.randint(1, 3), rng.randint(1, 3)
        R, A_, B_ = rng.randint(1, 3), rng.randint(1, 3), rng.randint(1, 3)
        m, k, n = rng.randint(1, 3), rng.randint(1, 3), rng.randint(1, 3)
        cA = int_tensor(rng, [a, m, k, A_], tn.float64, -2, 2)
        cB = int_tensor(rng, [b, k, n, B_], tn.float64, -2, 2)
        cX = int_tensor(rng, [r, m, n, R], tn.float64, -2, 2)
        P = int_tensor(rng, [r, a, b], tn.float64, -2, 2)
        Pn = int_tensor(rng, [R, A_, B_], tn.float64, -2, 2)
        nt = max(r, a, b, R, A_, B_) > 1
        cases.append(Case(J("phifwdAB", dense_tokens(P), core_tokens(cA), core_tokens(cB), core_tokens(cX)),
                          lambda P=P, cA=cA, cB=cB, cX=cX: out_dense(AM._compute_phi_fwd_AB(P.clone(), cA.clone(), cB.clone(), cX.clone())), None, "kernel/phi_fwd_AB", nt))
        cases.append(Case(J("phibckAB", dense_tokens(Pn), core_tokens(cA), core_tokens(cB), core_tokens(cX)),
                          lambda Pn=Pn, cA=cA, cB=cB, cX=cX: out_dense(AM._compute_phi_bck_AB(Pn.clone(), cA.clone(), cB.clone(), cX.clone())), None, "kernel/phi_bck_AB", nt))
        cases.append(Case(J("localAB", dense_tokens(P), dense_tokens(Pn), core_tokens(cA), core_tokens(cB)),
                          lambda P=P, Pn=Pn, cA=cA, cB=cB: out_dense(AM._local_AB(P.clone(), Pn.clone(), cA.clone(), cB.clone())), None, "kernel/local_AB", nt))
        x1 = int_tensor(rng, [r, m, n, R], tn.float64, -2, 2)
        x2 = int_tensor(rng, [a, m, n, A_], tn.float64, -2, 2)
        P2 = int_tensor(rng, [r, a], tn.float64, -2, 2)
        P2n = int_tensor(rng, [R, A_], tn.float64, -2, 2)
        cases.append(Case(J("phifwdX", dense_tokens(P2), core_tokens(x1), core_tokens(x2)),
                          lambda P2=P2, x1=x1, x2=x2: out_dense(AM._compute_phi_fwd_x(P2.clone(), x1.clone(), x2.clone())), None, "kernel/phi_fwd_x", nt))
        cases.append(Case(J("phibckX", dense_tokens(P2n), core_tokens(x1), core_tokens(x2)),
                          lambda P2n=P2n, x1=x1, x2=x2: out_dense(AM._compute_phi_bck_x(P2n.clone(), x1.clone(), x2.clone())), None, "kernel/phi_bck_x", nt))
    return cases


def rnd_cores(rng, shapes, dt, decay):
    g = tn.Generator().manual_seed(rng.randrange(1 << 30))
    cs = []
    for sh in shapes:
        c = tn.randn(sh, generator=g, dtype=tn.float64)
        if dt == tn.complex128:
            c = tn.complex(c, tn.randn(sh, generator=g, dtype=tn.float64))
        if decay:
            # decaying spectrum along the right rank
            w = tn.tensor([2.0 ** (-2 * j) for j in range(sh[-1])], dtype=tn.float64)
            c = c * w
        cs.append(c)
    return cs


def monitor_cases(rng, tier, stats):
    cases = []
    n_runs = 40 if tier == "quick" else 500
    for c in range(n_runs):
        d = rng.choice([1, 2, 2, 3, 3, 4] if tier == "quick" else [1, 2, 2, 3, 3, 4, 5, 6])
        hi = 6 if d <= 3 else (4 if d == 4 else 3)
        N = [rng.randint(1, hi) for _ in range(d)]
        M = [rng.randint(1, hi) for _ in range(d)]
        routine = rng.choice(["fast_matvec", "dmrg_hadamard", "amen_mv", "amen_mm"])
        cplx = routine in ("fast_matvec", "dmrg_hadamard") and rng.random() < 0.3
        dt = tn.complex128 if cplx else tn.float64
        eps = 10.0 ** rng.uniform(-12, -1)
        decay = rng.random() < 0.4
        RA = [1] + [rng.randint(1, 4) for _ in range(d - 1)] + [1]
        Rx = [1] + [rng.randint(1, 4) for _ in range(d - 1)] + [1]
        guess = rng.choice([None, None, "user"])
        fam = ""
        if c % 4 == 3:
            # structured family: a singleton mode in the interior, between bonds whose exact product rank (3x3) is far above the rank of the
            # internal random start, with neighbouring modes large enough to carry it -- the sweep has to grow the rank across the singleton
            d = 4 if tier == "quick" else rng.choice([4, 5])
            pos = rng.randint(1, d - 2)
            N = [rng.randint(4, 6) for _ in range(d)]
            M = [rng.randint(4, 6) for _ in range(d)]
            N[pos] = rng.choice([1, 1, 2])
            M[pos] = 1
            RA = [1] + [3] * (d - 1) + [1]
            Rx = [1] + [3] * (d - 1) + [1]
            eps = 10.0 ** rng.uniform(-10, -3)
            decay = False
            guess = None if rng.random() < 0.7 else "user"
            routine = ["fast_matvec", "dmrg_hadamard", "amen_mv", "amen_mm"][(c // 4) % 4]
            cplx = False
            dt = tn.float64
            fam = "/interior-singleton"
        nswp = 30
        gfac = 1.0
        if c % 8 == 1:
            # structured family: the sweep budget is exhausted (nswp 1..3) but the user-supplied guess already is the product, so the last
            # allowed sweep (which takes its own branch: no rank kick) must hand it back within eps
            routine = ["fast_matvec", "dmrg_hadamard"][(c // 8) % 2]
            cplx = (c // 16) % 2 == 1
            dt = tn.complex128 if cplx else tn.float64
            d = rng.choice([2, 3, 4])
            N = [rng.randint(2, 4) for _ in range(d)]
            M = [rng.randint(2, 4) for _ in range(d)]
            RA = [1] + [rng.randint(1, 3) for _ in range(d - 1)] + [1]
            Rx = [1] + [rng.randint(2, 3) for _ in range(d - 1)] + [1]
            eps = 10.0 ** rng.uniform(-10, -4)
            decay = False
            guess = "exact"
            nswp = rng.choice([1, 2, 3])
            # the guess is a multiple of the product (a warm start: it spans the interface spaces of the product, the value has to be recomputed)
            gfac = [1.0, -2.5, 0.375][(c // 8) % 3]
            fam = "/exact-guess-x%g-nswp%d" % (gfac, nswp)
            if (c // 8) % 4 == 3:
                # order 2: a single sweep computes the whole supercore, it is exact for ANY guess
                d = 2; N = N[:2]; M = M[:2]; RA = [1, RA[1], 1]; Rx = [1, Rx[1], 1]
                nswp = 1
                guess = ["user", None][(c // 32) % 2]
                fam = "/order2-nswp1-%s" % ("user-guess" if guess else "random-start")
        if c % 8 == 5:
            # structured family: a user-supplied guess that is EXACTLY orthogonal to the exact product (disjoint support in the last mode):
            # the projected supercore of the first sweep vanishes although the product does not
            routine = ["fast_matvec", "dmrg_hadamard"][(c // 8) % 2]
            cplx = (c // 16) % 2 == 1
            dt = tn.complex128 if cplx else tn.float64
            d = rng.choice([3, 4])
            N = [rng.randint(2, 4) for _ in range(d)]
            M = [rng.randint(2, 4) for _ in range(d)]
            RA = [1] + [rng.randint(1, 3) for _ in range(d - 1)] + [1]
            Rx = [1] + [rng.randint(1, 3) for _ in range(d - 1)] + [1]
            eps = 10.0 ** rng.uniform(-10, -4)
            decay = False
            guess = "orth"
            nswp = 30
            fam = "/orthogonal-guess"
        if c % 8 == 6:
            # structured family: TALL operators (row modes larger than column modes) whose product has far higher rank than a tensor of the
            # COLUMN shape could have — any rank bookkeeping of amen_mv must refer to the shape of the result, not of the input vector
            routine = "amen_mv"
            cplx = False
            dt = tn.float64
            d = 4
            M = [4, 6, 6, 4]
            N = [2, 1, 2, 2]
            RA = [1, 2, 4, 2, 1]
            Rx = [1, 2, 2, 2, 1]
            eps = [1e-10, 1e-4, 1e-7][(c // 8) % 3]
            decay = False
            guess = [None, "user"][(c // 8) % 2]
            fam = "/tall-operator"
        scale = 1.0
        if c % 8 == 7:
            # structured family: operands of tiny (or huge) magnitude together with a user-supplied guess of comparable or zero norm — the
            # statement is scale invariant, every convergence test inside must be relative
            routine = ["fast_matvec", "dmrg_hadamard"][(c // 8) % 2]
            cplx = (c // 16) % 2 == 1
            dt = tn.complex128 if cplx else tn.float64
            d = rng.choice([3, 4])
            N = [rng.randint(2, 4) for _ in range(d)]
            M = [rng.randint(2, 4) for _ in range(d)]
            RA = [1] + [rng.randint(2, 3) for _ in range(d - 1)] + [1]
            Rx = [1] + [rng.randint(2, 3) for _ in range(d - 1)] + [1]
            eps = 10.0 ** rng.uniform(-10, -4)
            decay = False
            guess = ["zeros", "small"][(c // 8) % 2]
            scale = [1e-15, 1e-25, 1e12][(c // 8) % 3]
            nswp = 30
            fam = "/scale%g-guess-%s" % (scale, guess)
        seed = rng.randrange(1 << 30)
        label = "%s/d%d/%s%s%s%s" % (routine, d, "c128" if cplx else "f64", "/decay" if decay else "", "/guess" if guess else "", fam)
        box = {}

        def impl(routine=routine, d=d, N=N, M=M, dt=dt, eps=eps, decay=decay, RA=RA, Rx=Rx, guess=guess, seed=seed, box=box, label=label, nswp=nswp, scale=scale, gfac=gfac):
            tn.manual_seed(seed)
            np.random.seed(seed % (2 ** 32))
            A = torchtt.TT(rnd_cores(rng, [[RA[k], M[k], N[k], RA[k + 1]] for k in range(d)], dt, decay))
            x = torchtt.TT(rnd_cores(rng, [[Rx[k], N[k], Rx[k + 1]] for k in range(d)], dt, decay))
            gr = [1] + [rng.randint(1, 5) for _ in range(d - 1)] + [1]
            if scale != 1.0:
                x = x * scale
                A = A * scale
            if routine == "fast_matvec":
                g = torchtt.TT(rnd_cores(rng, [[gr[k], M[k], gr[k + 1]] for k in range(d)], dt, False)) if guess else None
                if guess == "exact":
                    g = (A @ x).round(1e-14) * gfac
                if guess in ("zeros", "small"):
                    g = torchtt.zeros(M, dtype=dt) if guess == "zeros" else g * (scale * scale)
                if guess == "orth":
                    ca = [c_.clone() for c_ in A.cores]; ca[-1][:, 0, :, :] = 0; A = torchtt.TT(ca)          # the product lives on rows >= 1 of the last mode
                    cg = [c_.clone() for c_ in g.cores]; cg[-1][:, 1:, :] = 0; g = torchtt.TT(cg)            # the guess on row 0 only
                import contextlib, io
                with contextlib.redirect_stdout(io.StringIO()):
                    y = A.fast_matvec(x, eps=eps, initial=g, nswp=nswp, use_cpp=False, verb=(seed % 5 == 0))
                exact = dense_of(A).reshape(int(np.prod(M)), -1) @ dense_of(x).reshape(-1)
                got = dense_of(y).reshape(-1) if isinstance(y, torchtt.TT) and list(y.N) == M and not y.is_ttm else None
            elif routine == "dmrg_hadamard":
                y2 = torchtt.TT(rnd_cores(rng, [[RA[k], N[k], RA[k + 1]] for k in range(d)], dt, decay))
                g = torchtt.TT(rnd_cores(rng, [[gr[k], N[k], gr[k + 1]] for k in range(d)], dt, False)) if guess else None
                if scale != 1.0:
                    y2 = y2 * scale
                if guess == "exact":
                    g = (x * y2).round(1e-14) * gfac
                if guess in ("zeros", "small"):
                    g = torchtt.zeros(N, dtype=dt) if guess == "zeros" else g * (scale * scale)
                if guess == "orth":
                    cy = [c_.clone() for c_ in y2.cores]; cy[-1][:, 0, :] = 0; y2 = torchtt.TT(cy)
                    cg = [c_.clone() for c_ in g.cores]; cg[-1][:, 1:, :] = 0; g = torchtt.TT(cg)
                y = torchtt.dmrg_hadamard(x, y2, z0=g, eps=eps, nswp=nswp, use_cpp=False)
                exact = (dense_of(x) * dense_of(y2)).reshape(-1)
                got = dense_of(y).reshape(-1) if isinstance(y, torchtt.TT) and list(y.N) == N and not y.is_ttm else None
            elif routine == "amen_mv":
                g = torchtt.TT(rnd_cores(rng, [[gr[k], M[k], gr[k + 1]] for k in range(d)], dt, False)) if guess else None
                import contextlib, io
                with contextlib.redirect_stdout(io.StringIO()):
                    y = torchtt.amen_mv(A, x, eps=eps, x0=g, nswp=30, use_cpp=False, verbose=(seed % 5 == 0))
                exact = dense_of(A).reshape(int(np.prod(M)), -1) @ dense_of(x).reshape(-1)
                got = dense_of(y).reshape(-1) if isinstance(y, torchtt.TT) and list(y.N) == M and not y.is_ttm else None
            else:
                K = [rng.randint(1, 3) for _ in range(d)]
                B = torchtt.TT(rnd_cores(rng, [[Rx[k], N[k], K[k], Rx[k + 1]] for k in range(d)], dt, decay))
                g = torchtt.TT(rnd_cores(rng, [[gr[k], M[k], K[k], gr[k + 1]] for k in range(d)], dt, False)) if guess else None
                y = torchtt.amen_mm(A, B, eps=eps, X0=g, nswp=30)
                exact = (dense_of(A).reshape(int(np.prod(M)), -1) @ dense_of(B).reshape(int(np.prod(N)), -1)).reshape(-1)
                got = dense_of(y).reshape(-1) if isinstance(y, torchtt.TT) and y.is_ttm and list(y.M) == M and list(y.N) == K else None
            if got is None:
                box["shape"] = "wrong shape/kind: %s" % (getattr(y, "N", None),)
                return "bad-shape"
            nrm = float(tn.linalg.norm(exact))
            err = float(tn.linalg.norm(got - exact))
            box["ratio"] = (err / nrm / eps) if nrm > 0 else (0.0 if err < 1e-12 else float("inf"))
            stats.append((label, eps, box["ratio"]))
            return "ok"

        def oracle(box=box, label=label, eps=eps):
            if "shape" in box:
                return box["shape"]
            r = box.get("ratio")
            if r is None:
                return "the routine raised"
            if not (r <= C_ERR or r * eps <= 1e-13):      # NaN-safe
                return "relative error %.3g*eps exceeds %g*eps (eps=%.2g, %s)" % (r, C_ERR, eps, label)
            return None
        cases.append(Case(None, impl, oracle, "monitor/" + label, True, desc="%s N=%s M=%s RA=%s Rx=%s eps=%.2g seed=%d" % (label, N, M, RA, Rx, eps, seed)))
    return cases


def trace_cases(res, rng, tier):
    """Tie of the INLINE einsum chains of torchtt/_dmrg.py: the local variables of running dmrg_matvec_python / dmrg_hadamard_python are read from
    outside (sys.settrace) just before the environments and the supercore are stored; each recorded (operands -> result) triple is recomputed
    by the Lean kernels dmrgPhiBck / dmrgPhiFwd / dmrgSuper in exact rational arithmetic on the very floats of the run and compared (1e-9)."""
    import torchtt._dmrg as DM
    from trace import LocalsTracer
    from common import run_driver, parse_num
    pts = {"bck": "Phis[k] = Phi", "super": "b = tn.linalg.norm(W)", "fwd": "Phis[k+1] = Phi_next+0"}
    lines, expect, labels = [], [], []
    split_bad = []
    n_runs = 6 if tier == "quick" else 40
    broken = []
    for c in range(n_runs):
        had = c % 2 == 1
        cplx = c % 3 == 2
        dt = tn.complex128 if cplx else tn.float64
        d = rng.choice([2, 3, 3, 4])
        N = [rng.randint(1, 3) for _ in range(d)]
        M = list(N) if had else [rng.randint(1, 3) for _ in range(d)]
        RA = [1] + [rng.randint(1, 3) for _ in range(d - 1)] + [1]
        Rx = [1] + [rng.randint(1, 3) for _ in range(d - 1)] + [1]
        tn.manual_seed(rng.randrange(1 << 30))
        x = torchtt.TT(rnd_cores(rng, [[Rx[k], N[k], Rx[k + 1]] for k in range(d)], dt, False))
        if had:
            A = torchtt.TT(rnd_cores(rng, [[RA[k], N[k], RA[k + 1]] for k in range(d)], dt, False))
            fn, args, opname = DM.dmrg_hadamard_python, (A, x), "z"
        else:
            A = torchtt.TT(rnd_cores(rng, [[RA[k], M[k], N[k], RA[k + 1]] for k in range(d)], dt, False))
            fn, args, opname = DM.dmrg_matvec_python, (A, x), "A"
        kind = "h" if had else "m"
        label = "%s/d%d/%s" % ("dmrg_hadamard" if had else "dmrg_matvec", d, "c128" if cplx else "f64")

        def on(name, loc, kind=kind, opname=opname, label=label):
            k = loc["k"]
            op = loc[opname].cores
            xc = loc["x"].cores
            if name == "bck":
                lines.append(J("dmrgbck", kind, dense_tokens(loc["Phis"][k + 1]), core_tokens(loc["y_cores"][k]), core_tokens(op[k]), core_tokens(xc[k])))
                expect.append(loc["Phi"].detach().clone()); labels.append(label + "/phi_bck")
            elif name == "fwd":
                # glue after the truncated SVD (also on the last sweep, which takes its own branch): the two new cores multiply back to the
                # rank-r truncation of the supercore, for the r that was kept (with or without the kick columns, which meet zeros)
                yk, yk1 = loc["y_cores"][k], loc["y_cores"][k + 1]
                Wc = tn.conj(loc["W"]).reshape(loc["W"].shape[0] * loc["W"].shape[1], -1)
                U_, S_, V_ = loc["U"], loc["S"], loc["V"]
                prod = tn.einsum('amb,bnc->amnc', yk, yk1).reshape(Wc.shape) if yk.shape[2] == yk1.shape[0] else None
                okk = False
                if prod is not None:
                    for r in range(1, int(S_.shape[0]) + 1):      # the kept rank is not stored; a reduced QR of the kick can hide it
                        if True:
                            Tr = tn.conj((U_[:, :r] * S_[:r]) @ V_[:r, :])
                            if float(tn.linalg.norm(prod - Tr)) <= 1e-9 * max(1.0, float(tn.linalg.norm(Wc))):
                                okk = True
                if not okk:
                    split_bad.append("%s: after the split at bond %d (sweep %d) the cores y[k], y[k+1] do not multiply to the truncated supercore" % (label, k, loc.get("i", -1)))
                lines.append(J("dmrgfwd", kind, dense_tokens(loc["Phis"][k]), core_tokens(loc["y_cores"][k]), core_tokens(op[k]), core_tokens(xc[k])))
                expect.append(loc["Phi_next"].detach().clone()); labels.append(label + "/phi_fwd")
            elif name == "super" and not loc["last"]:
                lines.append(J("dmrgsuper", kind, dense_tokens(loc["Phis"][k]), dense_tokens(loc["Phis"][k + 2]),
                               core_tokens(op[k]), core_tokens(xc[k]), core_tokens(op[k + 1]), core_tokens(xc[k + 1])))
                expect.append(loc["W"].detach().clone()); labels.append(label + "/supercore")
                # loop invariant: the stored environments are the partial contractions of the CURRENT result cores (foldFwdA / foldBckA)
                ys = loc["y_cores"]
                dd = len(xc)
                fk = "hconj" if kind == "h" else "conj"
                if k > 0:
                    lines.append(J("foldA", "fwd", fk, cores_tokens(ys[:k], False), cores_tokens(op[:k], kind == "m"), cores_tokens(xc[:k], False)))
                    expect.append(loc["Phis"][k].detach().clone()); labels.append(label + "/env_left")
                if k + 2 < dd:
                    lines.append(J("foldA", "bck", fk, cores_tokens(ys[k + 2:], False), cores_tokens(op[k + 2:], kind == "m"), cores_tokens(xc[k + 2:], False)))
                    expect.append(loc["Phis"][k + 2].detach().clone()); labels.append(label + "/env_right")
        tr = LocalsTracer(fn, pts, on)
        if tr.missing:
            broken.append("%s: source pattern(s) %s not found" % (fn.__name__, tr.missing))
            continue
        try:
            with tr:
                fn(*args, nswp=2, eps=1e-10, kickrank=2)
        except Exception as e:
            broken.append("%s raised under tracing: %s" % (fn.__name__, type(e).__name__))
    for b in split_bad[:3]:
        res.violation({"property": "C11", "kind": "correspondence", "class": "dmrg-inline/split", "case": b, "impl_outcome": b,
                       "model_outcome": "y[k]·y[k+1] = U_r S_r V_r (truncated SVD of the supercore)", "note": "glue between the SVD and the stored cores"}, no_input=True)
    for b in broken:
        res.violation({"property": "C11", "kind": "correspondence", "class": "dmrg-inline/trace", "case": b, "impl_outcome": b,
                       "model_outcome": "observation points of the inline kernels", "note": "the inline-kernel tie of _dmrg.py cannot be established"}, no_input=True)
    if not lines:
        return
    outs = run_driver(lines)
    for line, exp, lab, mo in zip(lines, expect, labels, outs):
        res.model_cases += 1
        toks = mo.split()
        ok = toks and toks[0] == "dn"
        worst = float("inf")
        if ok:
            nd = int(toks[1]); dims = [int(t) for t in toks[2:2 + nd]]
            ok = dims == list(exp.shape)
            if ok:
                vals = [parse_num(t) for t in toks[2 + nd:]]
                mv = tn.tensor([complex(float(v[0]), float(v[1])) for v in vals], dtype=tn.complex128).reshape(dims)
                worst = float((mv - exp.to(tn.complex128)).abs().max()) if mv.numel() else 0.0
        scale = max(1.0, float(exp.abs().max()) if exp.numel() else 1.0)
        if ok and worst <= 1e-9 * scale:
            res.core_equal += 1
        else:
            res.violation({"property": "C11", "kind": "correspondence", "class": "dmrg-inline/" + lab, "case": line[:1500],
                           "impl_outcome": "shape %s" % (list(exp.shape),), "model_outcome": "%s ; max deviation %.3g" % (mo[:200], worst),
                           "note": "an inline einsum chain of _dmrg.py computes something else than the Lean kernel on the operands of the run"}, no_input=True)
    res.extra["dmrg_inline_kernel_evaluations"] = len(lines)


def trace_amen(res, rng, tier):
    """Loop tie of _amen_mm_python (amen_mm / amen_mv): before every local update the stored environments Phis_rhs are, up to a positive scalar,
    the folds foldFwdAB / foldBckAB (theorems foldFwdAB_eq, abxSweep_eq_dense) of the CURRENT iterate, and the local update equals
    Kern.localAB on them — evaluated by the Lean model in exact rationals on the floats of the run."""
    from trace import LocalsTracer
    from common import run_driver, parse_num
    pts = {"local": "norm_solution = tn.linalg.norm(solution_now)"}
    lines, expect, labels, modes = [], [], [], []
    broken = []
    for c in range(3 if tier == "quick" else 24):
        d = rng.choice([2, 3, 3, 4])
        M = [rng.randint(1, 3) for _ in range(d)]
        N = [rng.randint(1, 3) for _ in range(d)]
        K = [1] * d if c % 2 == 0 else [rng.randint(1, 2) for _ in range(d)]
        RA = [1] + [rng.randint(1, 3) for _ in range(d - 1)] + [1]
        RB = [1] + [rng.randint(1, 3) for _ in range(d - 1)] + [1]
        tn.manual_seed(rng.randrange(1 << 30))
        A = torchtt.TT(rnd_cores(rng, [[RA[k], M[k], N[k], RA[k + 1]] for k in range(d)], tn.float64, False))
        label = "amen_%s/d%d" % ("mv" if c % 2 == 0 else "mm", d)
        count = [0]

        def on(name, loc, label=label, count=count, d=d):
            count[0] += 1
            if count[0] > 2 * d:
                return
            k = loc["k"]
            xs = [t.detach().clone() for t in loc["x_cores"]]
            Ac, Bc = loc["A_cores"], loc["B_cores"]
            PL, PR = loc["Phis_rhs"][k], loc["Phis_rhs"][k + 1]
            lines.append(J("localAB", dense_tokens(PL), dense_tokens(PR), core_tokens(Ac[k]), core_tokens(Bc[k])))
            expect.append((loc["solution_now"] / loc["nrmsc"]).detach().clone()); labels.append(label + "/local_update"); modes.append("dir")
            if k > 0:
                lines.append(J("foldAB", "fwd", cores_tokens(Ac[:k], True), cores_tokens(Bc[:k], True), cores_tokens(xs[:k], True)))
                expect.append(PL.detach().clone()); labels.append(label + "/env_left"); modes.append("dir")
            if k + 1 < d:
                lines.append(J("foldAB", "bck", cores_tokens(Ac[k + 1:], True), cores_tokens(Bc[k + 1:], True), cores_tokens(xs[k + 1:], True)))
                expect.append(PR.detach().clone()); labels.append(label + "/env_right"); modes.append("dir")
        tr = LocalsTracer(AM._amen_mm_python, pts, on)
        if tr.missing:
            broken.append("_amen_mm_python: source pattern(s) %s not found" % tr.missing)
            continue
        try:
            with tr:
                if c % 2 == 0:
                    x = torchtt.TT(rnd_cores(rng, [[RB[k], N[k], RB[k + 1]] for k in range(d)], tn.float64, False))
                    torchtt.amen_mv(A, x, eps=1e-8, nswp=3, kickrank=2, use_cpp=False)
                else:
                    B = torchtt.TT(rnd_cores(rng, [[RB[k], N[k], K[k], RB[k + 1]] for k in range(d)], tn.float64, False))
                    torchtt.amen_mm(A, B, eps=1e-8, nswp=3, kickrank=2)
        except Exception as e:
            broken.append("_amen_mm_python raised under tracing: %s: %s" % (type(e).__name__, str(e)[:100]))
    for bmsg in broken:
        res.violation({"property": "C11", "kind": "correspondence", "class": "amen-loop/trace", "case": bmsg, "impl_outcome": bmsg,
                       "model_outcome": "observation point before the local update", "note": "the loop tie of _amen_mm_python cannot be established"}, no_input=True)
    if not lines:
        return
    outs = run_driver(lines)
    for line, exp, lab, mo in zip(lines, expect, labels, outs):
        res.model_cases += 1
        toks = mo.split()
        ok = bool(toks) and toks[0] == "dn"
        worst = float("inf")
        if ok:
            nd = int(toks[1]); dims = [int(t) for t in toks[2:2 + nd]]
            ok = dims == list(exp.shape)
            if ok:
                vals = [parse_num(t) for t in toks[2 + nd:]]
                mv = tn.tensor([float(v[0]) for v in vals], dtype=tn.float64).reshape(dims)
                na, nb = float(tn.linalg.norm(mv)), float(tn.linalg.norm(exp))
                worst = float((mv / na - exp / nb).abs().max()) if na > 0 and nb > 0 else (0.0 if na == nb else float("inf"))
        if ok and worst <= 1e-8:
            res.core_equal += 1
        else:
            res.violation({"property": "C11", "kind": "correspondence", "class": "amen-loop/" + lab, "case": line[:1500],
                           "impl_outcome": "shape %s" % (list(exp.shape),), "model_outcome": "%s ; max deviation %.3g" % (mo[:200], worst),
                           "note": "a quantity stored by the running AMEn product loop differs (beyond a positive scalar) from the Lean kernel / fold on the operands of the run"}, no_input=True)
    res.extra["amen_mm_loop_state_evaluations"] = len(lines)
    # the block after the local update (truncation + enrichment + QR + absorption into the next core): TTModel/AmenStep.lean, TT.C12d
    from looptie import update_loop_tie
    runs = []
    for c in range(4 if tier == "quick" else 24):
        d = [3, 2, 4, 3][c % 4]
        M = [rng.randint(1, 3) for _ in range(d)]
        N = [rng.randint(2, 3) for _ in range(d)]
        K = [1] * d if c % 2 == 0 else [rng.randint(1, 2) for _ in range(d)]
        RA = [1] + [rng.randint(1, 3) for _ in range(d - 1)] + [1]
        RB = [1] + [rng.randint(2, 3) for _ in range(d - 1)] + [1]
        seed = rng.randrange(1 << 30)

        def thunk(c=c, d=d, M=M, N=N, K=K, RA=RA, RB=RB, seed=seed, eps_t=[1e-8, 1e-1][(c // 2) % 2]):
            tn.manual_seed(seed)
            A = torchtt.TT(rnd_cores(rng, [[RA[k], M[k], N[k], RA[k + 1]] for k in range(d)], tn.float64, False))
            if c % 2 == 0:
                x = torchtt.TT(rnd_cores(rng, [[RB[k], N[k], RB[k + 1]] for k in range(d)], tn.float64, False))
                torchtt.amen_mv(A, x, eps=eps_t, nswp=3, kickrank=2, use_cpp=False)
            else:
                B = torchtt.TT(rnd_cores(rng, [[RB[k], N[k], K[k], RB[k + 1]] for k in range(d)], tn.float64, False))
                torchtt.amen_mm(A, B, eps=eps_t, nswp=3, kickrank=2)
        runs.append(("amen_%s/d%d" % ("mv" if c % 2 == 0 else "mm", d), thunk))
    pats = {"vt": "v = v.t()", "qr": "r_add = uk.shape", "set": "x_cores[k] = tn.reshape(u,"}
    res.extra["amen_mm_update_tie"] = update_loop_tie(res, "C11", rng, AM._amen_mm_python, pats, runs, res_rule=False)


def run(res, rng, tier, known):
    from common import run_cases
    stats = []
    cases = kernel_cases(rng, tier) + monitor_cases(rng, tier, stats)
    run_cases(res, cases, known)
    trace_cases(res, rng, tier)
    import einsum2lean
    einsum2lean.check(res, "C11")      # translator tie: the kernels' subscript strings, read from the current source, are the model kernels (Lean: rfl)
    trace_amen(res, rng, tier)
    if stats:
        res.extra["contract_monitor_runs"] = len(stats)
        res.extra["contract_monitor_max_error_over_eps"] = max(s[2] for s in stats)
        res.extra["contract_monitor_note"] = "monitor = differential execution against the acceptance predicate of the property; testing, not an obligation discharged"
    return {"level": LEVEL, "rule": RULE, "assumptions": ASSUMPTIONS,
            "not_by_theorem": ["the error bound ||y - Ax|| <= C eps ||Ax|| (kind K: monitored only)", "the loop structure of _dmrg.py around its inline kernels (truncation, kick, convergence tests): monitor only; the inline kernels themselves are tied by observation of the running function"]}
