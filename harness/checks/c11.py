"""C11 — DMRG and AMEn products approximate the exact product within a small multiple of eps.

(a) kernels of the AMEn matrix product (`_compute_phi_*_AB`, `_compute_phi_*_x`, `_local_AB`) called directly on integer data and
    compared exactly with the Lean kernel models; (b) contract monitor (NOT a proof): fast_matvec, dmrg_hadamard, amen_mv, amen_mm vs the
    exact product, relative Frobenius error <= C*eps, for random / user guesses, orders 1..6, complex for DMRG."""
import numpy as np
import torch as tn
import torchtt
import torchtt._amen as AM
from common import Case, dense_tokens, core_tokens, out_dense
from gen import int_tensor, dense_of
from util import J

LEVEL = "proof"
C_ERR = 10.0
RULE = ("(a) kernel cases on random integer Phi tensors / cores (ranks 1..3, rectangular modes 1..3); (b) monitor: compatible operand pairs of order 1..6 (quick 1..4), "
        "mode sizes 1..6, ranks 1..4, every fourth run an interior-singleton family (order 4..5, a size-1 row mode between rank-3x3 bonds), exact-rank and decaying-spectrum cores, eps in [1e-12,1e-1], random seeds, user guesses of rank 1..5, complex for the DMRG routines. "
        "Non-trivial: every kernel case with a rank>1, every monitor run.")
ASSUMPTIONS = ["the error inequality is MONITORED on the real code (kind K), constant C = %g" % C_ERR,
               "opt_einsum contracts what its subscripts say; QR/SVD contracts"]


def kernel_cases(rng, tier):
    cases = []
    for c in range(25 if tier == "quick" else 150):
        r, a, b = rng.randint(1, 3), rng.randint(1, 3), rng.randint(1, 3)
        R, A_, B_ = rng.randint(1, 3), rng.randint(1, 3), rng.randint(1, 3)
        m, k, n = rng.randint(1, 3), rng.randint(1, 3), rng.randint(1, 3)
        cA = int_tensor(rng, [a, m, k, A_], tn.float64, -2, 2)
        cB = int_tensor(rng, [b, k, n, B_], tn.float64, -2, 2)
        cX = int_tensor(rng, [r, m, n, R], tn.float64, -2, 2)
        P = int_tensor(rng, [r, a, b], tn.float64, -2, 2)
        Pn = int_tensor(rng, [R, A_, B_], tn.float64, -2, 2)
        nt = max(r, a, b, R, A_, B_) > 1
        cases.append(Case(J("phifwdAB", dense_tokens(P), core_tokens(cA), core_tokens(cB), core_tokens(cX)),
                          lambda P=P, cA=cA, cB=cB, cX=cX: out_dense(AM._compute_phi_fwd_AB(P.clone(), cA.clone(), cB.clone(), cX.clone())), None, "kernel/phi_fwd_AB", nt))
        cases.append(Case(J("phibckAB", dense_tokens(Pn), core_tokens(cA), core_tokens(cB), core_tokens(cX)),
                          lambda Pn=Pn, cA=cA, cB=cB, cX=cX: out_dense(AM._compute_phi_bck_AB(Pn.clone(), cA.clone(), cB.clone(), cX.clone())), None, "kernel/phi_bck_AB", nt))
        cases.append(Case(J("localAB", dense_tokens(P), dense_tokens(Pn), core_tokens(cA), core_tokens(cB)),
                          lambda P=P, Pn=Pn, cA=cA, cB=cB: out_dense(AM._local_AB(P.clone(), Pn.clone(), cA.clone(), cB.clone())), None, "kernel/local_AB", nt))
        x1 = int_tensor(rng, [r, m, n, R], tn.float64, -2, 2)
        x2 = int_tensor(rng, [a, m, n, A_], tn.float64, -2, 2)
        P2 = int_tensor(rng, [r, a], tn.float64, -2, 2)
        P2n = int_tensor(rng, [R, A_], tn.float64, -2, 2)
        cases.append(Case(J("phifwdX", dense_tokens(P2), core_tokens(x1), core_tokens(x2)),
                          lambda P2=P2, x1=x1, x2=x2: out_dense(AM._compute_phi_fwd_x(P2.clone(), x1.clone(), x2.clone())), None, "kernel/phi_fwd_x", nt))
        cases.append(Case(J("phibckX", dense_tokens(P2n), core_tokens(x1), core_tokens(x2)),
                          lambda P2n=P2n, x1=x1, x2=x2: out_dense(AM._compute_phi_bck_x(P2n.clone(), x1.clone(), x2.clone())), None, "kernel/phi_bck_x", nt))
    return cases


def rnd_cores(rng, shapes, dt, decay):
    g = tn.Generator().manual_seed(rng.randrange(1 << 30))
    cs = []
    for sh in shapes:
        c = tn.randn(sh, generator=g, dtype=tn.float64)
        if dt == tn.complex128:
            c = tn.complex(c, tn.randn(sh, generator=g, dtype=tn.float64))
        if decay:
            # decaying spectrum along the right rank
            w = tn.tensor([2.0 ** (-2 * j) for j in range(sh[-1])], dtype=tn.float64)
            c = c * w
        cs.append(c)
    return cs


def monitor_cases(rng, tier, stats):
    cases = []
    n_runs = 40 if tier == "quick" else 500
    for c in range(n_runs):
        d = rng.choice([1, 2, 2, 3, 3, 4] if tier == "quick" else [1, 2, 2, 3, 3, 4, 5, 6])
        hi = 6 if d <= 3 else (4 if d == 4 else 3)
        N = [rng.randint(1, hi) for _ in range(d)]
        M = [rng.randint(1, hi) for _ in range(d)]
        routine = rng.choice(["fast_matvec", "dmrg_hadamard", "amen_mv", "amen_mm"])
        cplx = routine in ("fast_matvec", "dmrg_hadamard") and rng.random() < 0.3
        dt = tn.complex128 if cplx else tn.float64
        eps = 10.0 ** rng.uniform(-12, -1)
        decay = rng.random() < 0.4
        RA = [1] + [rng.randint(1, 4) for _ in range(d - 1)] + [1]
        Rx = [1] + [rng.randint(1, 4) for _ in range(d - 1)] + [1]
        guess = rng.choice([None, None, "user"])
        fam = ""
        if c % 4 == 3:
            # structured family: a singleton mode in the interior, between bonds whose exact product rank (3x3) is far above the rank of the
            # internal random start, with neighbouring modes large enough to carry it -- the sweep has to grow the rank across the singleton
            d = 4 if tier == "quick" else rng.choice([4, 5])
            pos = rng.randint(1, d - 2)
            N = [rng.randint(4, 6) for _ in range(d)]
            M = [rng.randint(4, 6) for _ in range(d)]
            N[pos] = rng.choice([1, 1, 2])
            M[pos] = 1
            RA = [1] + [3] * (d - 1) + [1]
            Rx = [1] + [3] * (d - 1) + [1]
            eps = 10.0 ** rng.uniform(-10, -3)
            decay = False
            guess = None if rng.random() < 0.7 else "user"
            routine = ["fast_matvec", "dmrg_hadamard", "amen_mv", "amen_mm"][(c // 4) % 4]
            cplx = False
            dt = tn.float64
            fam = "/interior-singleton"
        seed = rng.randrange(1 << 30)
        label = "%s/d%d/%s%s%s%s" % (routine, d, "c128" if cplx else "f64", "/decay" if decay else "", "/guess" if guess else "", fam)
        box = {}

        def impl(routine=routine, d=d, N=N, M=M, dt=dt, eps=eps, decay=decay, RA=RA, Rx=Rx, guess=guess, seed=seed, box=box, label=label):
            tn.manual_seed(seed)
            np.random.seed(seed % (2 ** 32))
            A = torchtt.TT(rnd_cores(rng, [[RA[k], M[k], N[k], RA[k + 1]] for k in range(d)], dt, decay))
            x = torchtt.TT(rnd_cores(rng, [[Rx[k], N[k], Rx[k + 1]] for k in range(d)], dt, decay))
            gr = [1] + [rng.randint(1, 5) for _ in range(d - 1)] + [1]
            if routine == "fast_matvec":
                g = torchtt.TT(rnd_cores(rng, [[gr[k], M[k], gr[k + 1]] for k in range(d)], dt, False)) if guess else None
                y = A.fast_matvec(x, eps=eps, initial=g, nswp=30, use_cpp=False)
                exact = dense_of(A).reshape(int(np.prod(M)), -1) @ dense_of(x).reshape(-1)
                got = dense_of(y).reshape(-1) if isinstance(y, torchtt.TT) and list(y.N) == M and not y.is_ttm else None
            elif routine == "dmrg_hadamard":
                y2 = torchtt.TT(rnd_cores(rng, [[RA[k], N[k], RA[k + 1]] for k in range(d)], dt, decay))
                g = torchtt.TT(rnd_cores(rng, [[gr[k], N[k], gr[k + 1]] for k in range(d)], dt, False)) if guess else None
                y = torchtt.dmrg_hadamard(x, y2, z0=g, eps=eps, nswp=30, use_cpp=False)
                exact = (dense_of(x) * dense_of(y2)).reshape(-1)
                got = dense_of(y).reshape(-1) if isinstance(y, torchtt.TT) and list(y.N) == N and not y.is_ttm else None
            elif routine == "amen_mv":
                g = torchtt.TT(rnd_cores(rng, [[gr[k], M[k], gr[k + 1]] for k in range(d)], dt, False)) if guess else None
                y = torchtt.amen_mv(A, x, eps=eps, x0=g, nswp=30, use_cpp=False)
                exact = dense_of(A).reshape(int(np.prod(M)), -1) @ dense_of(x).reshape(-1)
                got = dense_of(y).reshape(-1) if isinstance(y, torchtt.TT) and list(y.N) == M and not y.is_ttm else None
            else:
                K = [rng.randint(1, 3) for _ in range(d)]
                B = torchtt.TT(rnd_cores(rng, [[Rx[k], N[k], K[k], Rx[k + 1]] for k in range(d)], dt, decay))
                g = torchtt.TT(rnd_cores(rng, [[gr[k], M[k], K[k], gr[k + 1]] for k in range(d)], dt, False)) if guess else None
                y = torchtt.amen_mm(A, B, eps=eps, X0=g, nswp=30)
                exact = (dense_of(A).reshape(int(np.prod(M)), -1) @ dense_of(B).reshape(int(np.prod(N)), -1)).reshape(-1)
                got = dense_of(y).reshape(-1) if isinstance(y, torchtt.TT) and y.is_ttm and list(y.M) == M and list(y.N) == K else None
            if got is None:
                box["shape"] = "wrong shape/kind: %s" % (getattr(y, "N", None),)
                return "bad-shape"
            nrm = float(tn.linalg.norm(exact))
            err = float(tn.linalg.norm(got - exact))
            box["ratio"] = (err / nrm / eps) if nrm > 0 else (0.0 if err < 1e-12 else float("inf"))
            stats.append((label, eps, box["ratio"]))
            return "ok"

        def oracle(box=box, label=label, eps=eps):
            if "shape" in box:
                return box["shape"]
            r = box.get("ratio")
            if r is None:
                return "the routine raised"
            if r > C_ERR and r * eps > 1e-13:
                return "relative error %.3g*eps exceeds %g*eps (eps=%.2g, %s)" % (r, C_ERR, eps, label)
            return None
        cases.append(Case(None, impl, oracle, "monitor/" + label, True, desc="%s N=%s M=%s RA=%s Rx=%s eps=%.2g seed=%d" % (label, N, M, RA, Rx, eps, seed)))
    return cases


def run(res, rng, tier, known):
    from common import run_cases
    stats = []
    cases = kernel_cases(rng, tier) + monitor_cases(rng, tier, stats)
    run_cases(res, cases, known)
    if stats:
        res.extra["contract_monitor_runs"] = len(stats)
        res.extra["contract_monitor_max_error_over_eps"] = max(s[2] for s in stats)
        res.extra["contract_monitor_note"] = "monitor = differential execution against the acceptance predicate of the property; testing, not an obligation discharged"
    return {"level": LEVEL, "rule": RULE, "assumptions": ASSUMPTIONS,
            "not_by_theorem": ["the error bound ||y - Ax|| <= C eps ||Ax|| (kind K: monitored only)", "the inline einsums of _dmrg.py (covered by the monitor and by the shared structure with the AMEn kernels only)"]}
