"""Exact tie of the decomposition sweeps (to_tt, lr_orthogonal, round_tt) to the oracle-parameterised Lean models (TTModel/Decomp.lean).

The numerical primitives of torchtt._decomposition are replaced FROM OUTSIDE by exact integer oracles — SVD(C) := (I, 1, C) when rows <= cols,
else (C, 1, I); QR likewise; rank_chop := min(len(s), cap) — so that the whole data flow of the sweeps (reshapes, which factor is kept where,
absorption into the neighbour) runs in exact arithmetic and can be compared core by core with the model run on the same oracle."""
import numpy as np
import torch as tn
import torchtt
import torchtt._decomposition as D
import torchtt._extras as E
import torchtt._tt_base as B
from common import Case, dense_tokens, tt_tokens, out_tt
from gen import int_tensor, rand_tt, rand_ranks, dense_of, exact_equal
from util import J


class FakePrims:
    def __init__(self, cap):
        self.cap = cap

    def __enter__(self):
        self.saved = (D.SVD, D.QR, D.rank_chop)
        cap = self.cap

        def svd(mat):
            r, c = mat.shape
            if r <= c:
                return tn.eye(r, dtype=mat.dtype), tn.ones(r, dtype=mat.dtype), mat.clone()
            return mat.clone(), tn.ones(c, dtype=mat.dtype), tn.eye(c, dtype=mat.dtype)

        def qr(mat):
            r, c = mat.shape
            if r <= c:
                return tn.eye(r, dtype=mat.dtype), mat.clone()
            return mat.clone(), tn.eye(c, dtype=mat.dtype)

        def chop(s, eps):
            return min(int(np.size(s)), cap)
        D.SVD, D.QR, D.rank_chop = svd, qr, chop
        for mod in (E, B):
            for nm, f in (("SVD", svd), ("QR", qr), ("rank_chop", chop)):
                if hasattr(mod, nm):
                    setattr(mod, nm, f)
        return self

    def __exit__(self, *a):
        D.SVD, D.QR, D.rank_chop = self.saved
        for mod in (E, B):
            for nm, f in zip(("SVD", "QR", "rank_chop"), self.saved):
                if hasattr(mod, nm):
                    setattr(mod, nm, f)


def factor_shape(rng, total):
    """a random ordered factorisation of `total` (prime factors distributed over 1..4 positions, ones inserted)"""
    fs, n, p = [], total, 2
    while n > 1:
        while n % p == 0:
            fs.append(p); n //= p
        p += 1
    rng.shuffle(fs)
    k = rng.randint(1, max(1, min(4, len(fs))))
    out = [1] * k
    for f in fs:
        out[rng.randrange(k)] *= f
    while rng.random() < 0.3 and len(out) < 6:
        out.insert(rng.randrange(len(out) + 1), 1)
    return out


def factor_into(rng, total, k):
    """ordered factorisation of `total` into exactly k factors (ones allowed)"""
    fs, n, p = [], total, 2
    while n > 1:
        while n % p == 0:
            fs.append(p); n //= p
        p += 1
    out = [1] * k
    for f in fs:
        out[rng.randrange(k)] *= f
    return out


def sweep_cases(rng, tier, which):
    cases = []
    n = 30 if tier == "quick" else 250
    for c in range(n):
        d = rng.randint(2, 5)
        N = [rng.randint(1, 3) for _ in range(d)]
        cap = rng.choice([1, 2, 3, 1000])
        if which == "to_tt":
            A = int_tensor(rng, N, tn.float64, -3, 3)

            def impl(A=A, cap=cap):
                with FakePrims(cap):
                    x = torchtt.TT(A.clone(), eps=0.5)
                return out_tt(x)

            def oracle(A=A, cap=cap):
                if cap < 1000:
                    return None
                with FakePrims(cap):
                    x = torchtt.TT(A.clone(), eps=0.5)
                e = exact_equal(dense_of(x), A)
                return ("with an exact factorisation oracle and no truncation the sweep must reproduce A exactly: " + e) if e else None
            cases.append(Case(J("tott", cap, dense_tokens(A)), impl, oracle, "sweep/to_tt/d%d/cap%s" % (d, cap), True, gauge_ok=False))
        elif which == "permute":
            x = rand_tt(rng, N, rand_ranks(rng, d, 3), tn.float64)
            dx = dense_of(x)
            dims = list(range(d)); rng.shuffle(dims)

            def impl(x=x, cap=cap, dims=dims):
                with FakePrims(cap):
                    y = torchtt.permute(x, list(dims), eps=0.5)
                return out_tt(y)

            def oracle(x=x, dx=dx, cap=cap, dims=dims):
                if cap < 1000:
                    return None
                with FakePrims(cap):
                    y = torchtt.permute(x, list(dims), eps=0.5)
                e = exact_equal(dense_of(y), dx.permute(dims))
                return ("permute with exact oracles and no truncation must move the entries exactly: " + e) if e else None
            cases.append(Case(J("permutett", cap, [d] + dims, tt_tokens(x)), impl, oracle, "sweep/permute/d%d/cap%s" % (d, cap), True, gauge_ok=False))
        elif which in ("mat_to_tt", "lr_orthogonal_ttm", "round_ttm"):
            d = rng.randint(2, 4)
            M = [rng.randint(1, 3) for _ in range(d)]
            N = [rng.randint(1, 2) for _ in range(d)]
            if which == "mat_to_tt":
                A = int_tensor(rng, M + N, tn.float64, -3, 3)
                shp = [(m, n) for m, n in zip(M, N)]

                def impl(A=A, cap=cap, shp=shp):
                    with FakePrims(cap):
                        x = torchtt.TT(A.clone(), shape=list(shp), eps=0.5)
                    return out_tt(x)

                def oracle(A=A, cap=cap, shp=shp):
                    if cap < 1000:
                        return None
                    with FakePrims(cap):
                        x = torchtt.TT(A.clone(), shape=list(shp), eps=0.5)
                    e = exact_equal(dense_of(x), A)
                    return ("mat_to_tt with an exact factorisation oracle and no truncation must reproduce A exactly: " + e) if e else None
                cases.append(Case(J("mattott", cap, [d] + M, [d] + N, dense_tokens(A)), impl, oracle, "sweep/mat_to_tt/d%d/cap%s" % (d, cap), True, gauge_ok=False))
            else:
                x = rand_tt(rng, N, rand_ranks(rng, d, 3), tn.float64, M=M)
                dx = dense_of(x)
                if which == "lr_orthogonal_ttm":
                    def impl(x=x):
                        with FakePrims(1000):
                            cs, R = D.lr_orthogonal([c.clone() for c in x.cores], list(x.R), True)
                        return out_tt(torchtt.TT(cs))

                    def oracle(x=x, dx=dx):
                        with FakePrims(1000):
                            cs, R = D.lr_orthogonal([c.clone() for c in x.cores], list(x.R), True)
                        e = exact_equal(dense_of(torchtt.TT(cs)), dx)
                        return ("lr_orthogonal (TT-matrix) with an exact QR oracle changed the operator: " + e) if e else None
                    cases.append(Case(J("lrorthm", tt_tokens(x)), impl, oracle, "sweep/lr_orthogonal_ttm/d%d" % d, True, gauge_ok=False))
                else:
                    def impl(x=x, cap=cap):
                        with FakePrims(cap):
                            y = x.round(0.5)
                        return out_tt(y)

                    def oracle(x=x, dx=dx, cap=cap):
                        if cap < 1000:
                            return None
                        with FakePrims(cap):
                            y = x.round(0.5)
                        e = exact_equal(dense_of(y), dx)
                        return ("round (TT-matrix) with exact oracles and no truncation changed the operator: " + e) if e else None
                    cases.append(Case(J("roundttm", cap, tt_tokens(x)), impl, oracle, "sweep/round_ttm/d%d/cap%s" % (d, cap), True, gauge_ok=False))
        elif which in ("to_tt_rmax", "mat_to_tt_rmax"):
            # per-bond caps (rmax list), singleton modes included; the fake rank_chop keeps everything, the cap comes from rmax alone
            d = rng.randint(2, 4)
            if which == "to_tt_rmax":
                N = [rng.choice([1, 2, 3, 4]) for _ in range(d)]
                caps = [rng.randint(1, 4) for _ in range(d - 1)]
                A = int_tensor(rng, N, tn.float64, -3, 3)

                def impl(A=A, caps=caps, N=N):
                    with FakePrims(1000):
                        x = torchtt.TT(A.clone(), eps=0.5, rmax=[1] + list(caps) + [1])
                    return out_tt(x)
                cases.append(Case(J("tottr", [len(caps)] + caps, dense_tokens(A)), impl, None, "sweep/to_tt_rmax/d%d" % d, True, gauge_ok=False))
            else:
                M = [rng.randint(1, 3) for _ in range(d)]
                N = [rng.randint(1, 2) for _ in range(d)]
                caps = [rng.randint(1, 4) for _ in range(d - 1)]
                A = int_tensor(rng, M + N, tn.float64, -3, 3)
                shp = [(m, n) for m, n in zip(M, N)]

                def impl(A=A, caps=caps, shp=shp):
                    with FakePrims(1000):
                        x = torchtt.TT(A.clone(), shape=list(shp), eps=0.5, rmax=[1] + list(caps) + [1])
                    return out_tt(x)
                cases.append(Case(J("mattottr", [len(caps)] + caps, [d] + M, [d] + N, dense_tokens(A)), impl, None, "sweep/mat_to_tt_rmax/d%d" % d, True, gauge_ok=False))
        elif which == "permute_ttm":
            d = rng.randint(2, 4)
            M = [rng.randint(1, 3) for _ in range(d)]
            N = [rng.randint(1, 2) for _ in range(d)]
            x = rand_tt(rng, N, rand_ranks(rng, d, 3), tn.float64, M=M)
            dx = dense_of(x)
            dims = list(range(d)); rng.shuffle(dims)
            if c % 5 == 0:
                dims = list(range(d))[::-1]

            def impl(x=x, cap=cap, dims=dims):
                with FakePrims(cap):
                    y = torchtt.permute(x, list(dims), eps=0.5)
                return out_tt(y)

            def oracle(x=x, dx=dx, cap=cap, dims=dims, d=d):
                if cap < 1000:
                    return None
                with FakePrims(cap):
                    y = torchtt.permute(x, list(dims), eps=0.5)
                e = exact_equal(dense_of(y), dx.permute(list(dims) + [d + k for k in dims]))
                return ("permute (TT-matrix) with exact oracles and no truncation must move the entries exactly: " + e) if e else None
            cases.append(Case(J("permutettm", cap, [d] + dims, tt_tokens(x)), impl, oracle, "sweep/permute_ttm/d%d/cap%s" % (d, cap), True, gauge_ok=False))
        elif which == "reshape_ttm":
            d = rng.randint(1, 3)
            M = [rng.choice([1, 2, 3, 4]) for _ in range(d)]
            N = [rng.choice([1, 2, 3, 4]) for _ in range(d)]
            x = rand_tt(rng, N, rand_ranks(rng, d, 3), tn.float64, M=M)
            dx = dense_of(x)
            # a compatible target: factorise row and column sizes position by position (merge everything, then split both the same number of ways)
            k = rng.randint(1, 3)
            Md = factor_into(rng, int(np.prod(M)), k)
            Nd = factor_into(rng, int(np.prod(N)), k)
            dst = list(zip(Md, Nd))

            def run_impl(x=x, cap=cap, dst=dst):
                with FakePrims(cap):
                    return torchtt.reshape(x, list(dst), eps=0.5)

            def impl(run_impl=run_impl):
                return out_tt(run_impl())

            def oracle(run_impl=run_impl, dx=dx, cap=cap, Md=Md, Nd=Nd):
                if cap < 1000:
                    return None
                y = run_impl()
                e = exact_equal(dense_of(y), dx.reshape(list(Md) + list(Nd)))
                return ("reshape (TT-matrix) with exact oracles and no truncation must keep the row-major entry order of rows and columns: " + e) if e else None
            cases.append(Case(J("reshapettm", cap, len(dst), [v for p in dst for v in p], tt_tokens(x)), impl, oracle, "sweep/reshape_ttm/d%d->%d/cap%s" % (d, k, cap), True, gauge_ok=False))
        elif which == "to_qtt":
            d = rng.randint(1, 3)
            ms = rng.choice([2, 2, 3])
            N = [ms ** rng.randint(0, 3 if ms == 2 else 2) for _ in range(d)]
            x = rand_tt(rng, N, rand_ranks(rng, d, 3), tn.float64)
            dx = dense_of(x)

            def impl(x=x, cap=cap, ms=ms):
                with FakePrims(cap):
                    y = x.to_qtt(eps=0.5, mode_size=ms)
                return out_tt(y)

            def oracle(x=x, dx=dx, cap=cap, ms=ms, N=N):
                if cap < 1000:
                    return None
                with FakePrims(cap):
                    y = x.to_qtt(eps=0.5, mode_size=ms)
                e = exact_equal(dense_of(y).reshape(-1), dx.reshape(-1))
                if e:
                    return "to_qtt with exact oracles and no truncation must keep the row-major entry order: " + e
                if any(n not in (1, ms) for n in y.N):
                    return "to_qtt left a mode of size %s" % (list(y.N),)
                z = y.qtt_to_tens(list(N))
                e = exact_equal(dense_of(z), dx)
                return ("qtt_to_tens(to_qtt(x)) differs from x: " + e) if e else None
            cases.append(Case(J("toqtt", cap, ms, tt_tokens(x)), impl, oracle, "sweep/to_qtt/ms%d/d%d/cap%s" % (ms, d, cap), True, gauge_ok=False))
            if cap == 1000:
                def impl2(x=x, ms=ms, N=N):
                    with FakePrims(1000):
                        y = x.to_qtt(eps=0.5, mode_size=ms)
                    return out_tt(y.qtt_to_tens(list(N)))
                with FakePrims(1000):
                    y0 = x.to_qtt(eps=0.5, mode_size=ms)
                cases.append(Case(J("qtttotens", [len(N)] + N, tt_tokens(y0)), impl2, None, "sweep/qtt_to_tens/ms%d/d%d" % (ms, d), True, gauge_ok=False))
        elif which == "reshape":
            N = [rng.choice([1, 2, 3, 4, 6]) for _ in range(rng.randint(1, 4))]
            d = len(N)
            x = rand_tt(rng, N, rand_ranks(rng, d, 3), tn.float64)
            dx = dense_of(x)
            dst = factor_shape(rng, int(np.prod(N)))

            def impl(x=x, cap=cap, dst=dst):
                with FakePrims(cap):
                    y = torchtt.reshape(x, list(dst), eps=0.5)
                return out_tt(y)

            def oracle(x=x, dx=dx, cap=cap, dst=dst):
                if cap < 1000:
                    return None
                with FakePrims(cap):
                    y = torchtt.reshape(x, list(dst), eps=0.5)
                e = exact_equal(dense_of(y), dx.reshape(dst))
                return ("reshape with exact oracles and no truncation must keep the row-major entry order exactly: " + e) if e else None
            cases.append(Case(J("reshapett", cap, [len(dst)] + dst, tt_tokens(x)), impl, oracle, "sweep/reshape/d%d->%d/cap%s" % (d, len(dst), cap), True, gauge_ok=False))
        elif which == "rl_orthogonal":
            x = rand_tt(rng, N, rand_ranks(rng, d, 3), tn.float64)
            dx = dense_of(x)

            def impl(x=x):
                with FakePrims(1000):
                    cs, R = D.rl_orthogonal([c.clone() for c in x.cores], list(x.R), False)
                return "tt " + " ".join(["T", str(len(cs))] + [t for c in cs for t in __import__("common").core_tokens(c)])

            def oracle(x=x, dx=dx):
                with FakePrims(1000):
                    cs, R = D.rl_orthogonal([c.clone() for c in x.cores], list(x.R), False)
                e = exact_equal(dense_of(torchtt.TT(cs)), dx)
                return ("rl_orthogonal with an exact QR oracle changed the tensor: " + e) if e else None
            cases.append(Case(J("rlorth", tt_tokens(x)), impl, oracle, "sweep/rl_orthogonal/d%d" % d, True, gauge_ok=False))
        else:
            x = rand_tt(rng, N, rand_ranks(rng, d, 3), tn.float64)
            dx = dense_of(x)
            if which == "lr_orthogonal":
                def impl(x=x):
                    with FakePrims(1000):
                        cs, R = D.lr_orthogonal([c.clone() for c in x.cores], list(x.R), False)
                    return "tt " + " ".join(["T", str(len(cs))] + [t for c in cs for t in __import__("common").core_tokens(c)])

                def oracle(x=x, dx=dx):
                    with FakePrims(1000):
                        cs, R = D.lr_orthogonal([c.clone() for c in x.cores], list(x.R), False)
                    e = exact_equal(dense_of(torchtt.TT(cs)), dx)
                    return ("lr_orthogonal with an exact QR oracle changed the tensor: " + e) if e else None
                cases.append(Case(J("lrorth", tt_tokens(x)), impl, oracle, "sweep/lr_orthogonal/d%d" % d, True, gauge_ok=False))
            else:
                def impl(x=x, cap=cap):
                    with FakePrims(cap):
                        y = x.round(0.5)
                    return out_tt(y)

                def oracle(x=x, dx=dx, cap=cap):
                    if cap < 1000:
                        return None
                    with FakePrims(cap):
                        y = x.round(0.5)
                    e = exact_equal(dense_of(y), dx)
                    return ("round with exact oracles and no truncation changed the tensor: " + e) if e else None
                cases.append(Case(J("roundtt", cap, tt_tokens(x)), impl, oracle, "sweep/round_tt/d%d/cap%s" % (d, cap), True, gauge_ok=False))
    return cases
