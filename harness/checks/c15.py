"""C15 — gradients through TT operations match the dense derivative.

Random expression programs (depth 1..3) over the differentiable TT operations are (i) executed on the real torchtt with
autograd tracking and differentiated with torchtt.grad.grad / grad_list, (ii) evaluated by the Lean expression model over
dual numbers (exact forward-mode derivative w.r.t. every entry of the tracked core), (iii) evaluated on dense arrays with
an independent autograd graph (the property's own oracle).  All data are small integers, so the three agree exactly."""
import numpy as np
import torch as tn
import torch.nn.functional as tnf
import torchtt
from common import Case, tt_tokens, num_str, tensor_tokens, run_driver
from gen import rand_tt, rand_modes, rand_ranks, dense_of_cores, exact_equal, int_tensor
from util import J

LEVEL = "proof"
RK_MAX = 12
RULE = ("random programs of depth 1..3 built from {+, -, *, unary -, scalar *, scalar +, A@x, kron, cat, pad, mprod, sum over modes, slicing} with a scalar head in "
        "{sum, dot, norm², entry (apply_mask / integer slicing), bilinear_form, sums/products of those}; operands of order 1..3 (modes<=3, ranks<=2, integer cores); "
        "every choice of tracked operand (tensor or operator) and tracked core; float64. Non-trivial: the gradient is not identically zero.")
ASSUMPTIONS = ["torch.autograd returns the derivative of the graph it recorded (trusted)",
               "for polynomial maps the algebraic derivative (dual numbers) is the analytic derivative",
               "exact float arithmetic on small integer data (asserted by exact conversion)"]


class Node:
    """expression node with three interpretations: model tokens, torchtt evaluation, dense evaluation"""
    def __init__(self, toks, tt_fn, dn_fn, N, rk=2):
        self.toks, self.tt_fn, self.dn_fn, self.N, self.rk = toks, tt_fn, dn_fn, N, rk      # rk: bound on the TT ranks of the value


def gen_te(rng, depth, ops, N, allow_shape_change=True):
    """returns Node for a tensor expression whose shape is N (list) — shape-changing ops are applied on top"""
    nT, nM = ops["nT"], ops["nM"]
    if depth == 0 or rng.random() < 0.25:
        i = rng.randrange(nT)
        return Node(["var", i], lambda env, i=i: env["T"][i], lambda den, i=i: den["T"][i], list(N))
    k = rng.choice(["add", "sub", "mul", "neg", "smul", "adds", "mv"] + (["mv"] if nM else []))
    if k in ("add", "sub", "mul"):
        a = gen_te(rng, depth - 1, ops, N); b = gen_te(rng, depth - 1, ops, N)
        f = {"add": lambda u, v: u + v, "sub": lambda u, v: u - v, "mul": lambda u, v: u * v}[k]
        rk = a.rk * b.rk if k == "mul" else a.rk + b.rk
        if rk > RK_MAX:
            return a          # keep the ranks (and with them the cost of the exact model evaluation) bounded
        return Node([k] + a.toks + b.toks, lambda env, a=a, b=b, f=f: f(a.tt_fn(env), b.tt_fn(env)),
                    lambda den, a=a, b=b, f=f: f(a.dn_fn(den), b.dn_fn(den)), list(N), rk)
    a = gen_te(rng, depth - 1, ops, N)
    if k == "neg":
        return Node(["neg"] + a.toks, lambda env, a=a: -a.tt_fn(env), lambda den, a=a: -a.dn_fn(den), list(N), a.rk)
    if k == "smul":
        s = rng.choice([2, -1, 3, 0.5])
        return Node(["smul"] + a.toks + [num_str(float(s))], lambda env, a=a, s=s: a.tt_fn(env) * s if rng.random() < 2 else None,
                    lambda den, a=a, s=s: a.dn_fn(den) * s, list(N), a.rk)
    if k == "adds":
        s = rng.choice([1, -2, 0.5])
        return Node(["adds"] + a.toks + [num_str(float(s))], lambda env, a=a, s=s: a.tt_fn(env) + s, lambda den, a=a, s=s: a.dn_fn(den) + s, list(N), a.rk + 1)
    if k == "mv" and nM:
        A = rng.randrange(nM)
        d = len(N)

        def dn(den, a=a, A=A, d=d):
            n = int(np.prod(N))
            return (den["M"][A].reshape(n, n) @ a.dn_fn(den).reshape(-1)).reshape(N)
        if a.rk * 2 > RK_MAX or "mv" in a.toks:
            return a          # nested operator products make the closure-based exact evaluation of the model explode
        return Node(["mv", A] + a.toks, lambda env, a=a, A=A: env["M"][A] @ a.tt_fn(env), dn, list(N), a.rk * 2)
    return a


def wrap_shape_change(rng, node):
    """optionally apply one shape-changing operation on top of a tensor expression"""
    N = node.N
    d = len(N)
    k = rng.choice(["none", "none", "kron", "cat", "pad", "mprod", "sumsel", "getitem"])
    a = node
    if k == "kron" and ("mv" in a.toks or len(a.toks) > 8 or (d >= 3 and a.toks[0] != "var")):
        return a          # the model's sweeps are closure based: their cost is exponential in the order, so order-6 results only from plain operands
    if k == "kron":
        return Node(["kron"] + a.toks + a.toks, lambda env, a=a: a.tt_fn(env) ** a.tt_fn(env),
                    lambda den, a=a: tn.tensordot(a.dn_fn(den), a.dn_fn(den), dims=0), N + N)
    if k == "cat":
        dim = rng.randrange(d)
        N2 = list(N); N2[dim] *= 2
        return Node(["cat", dim] + a.toks + a.toks, lambda env, a=a, dim=dim: torchtt.cat((a.tt_fn(env), a.tt_fn(env)), dim),
                    lambda den, a=a, dim=dim: tn.cat((a.dn_fn(den), a.dn_fn(den)), dim), N2)
    if k == "pad":
        npad = rng.randint(1, d)
        pads = [(rng.randint(0, 1), rng.randint(0, 1)) for _ in range(npad)]
        v = float(rng.choice([0, 2]))
        N2 = list(N)
        for p, kk in zip(pads, range(d - npad, d)):
            N2[kk] += p[0] + p[1]

        def dn(den, a=a, pads=pads, v=v):
            flat = []
            for p in reversed(pads):
                flat += [p[0], p[1]]
            return tnf.pad(a.dn_fn(den), tuple(flat), value=v)
        return Node(["pad"] + a.toks + [npad] + [x for p in pads for x in p] + [num_str(v)],
                    lambda env, a=a, pads=pads, v=v: torchtt.pad(a.tt_fn(env), tuple(pads), value=v), dn, N2)
    if k == "mprod":
        mode = rng.randrange(d)
        rows = rng.randint(1, 3)
        F = int_tensor(rng, [rows, N[mode]], tn.float64)
        N2 = list(N); N2[mode] = rows
        return Node(["mprod"] + a.toks + [mode, rows, N[mode]] + tensor_tokens(F),
                    lambda env, a=a, F=F, mode=mode: a.tt_fn(env).mprod(F, mode),
                    lambda den, a=a, F=F, mode=mode: tn.movedim(tn.tensordot(F, a.dn_fn(den), dims=([1], [mode])), 0, mode), N2)
    if k == "sumsel" and d >= 2:
        idx = sorted(rng.sample(range(d), rng.randint(1, d - 1)))
        N2 = [n for i, n in enumerate(N) if i not in idx]
        return Node(["sumsel"] + a.toks + [len(idx)] + idx, lambda env, a=a, idx=idx: a.tt_fn(env).sum(list(idx)),
                    lambda den, a=a, idx=idx: a.dn_fn(den).sum(dim=idx), N2)
    if k == "getitem" and d >= 2:
        sel, toks, N2 = [], [], []
        kept = False
        for i, n in enumerate(N):
            if rng.random() < 0.5 or (i == d - 1 and not kept):
                a0 = rng.randrange(n); b0 = rng.randint(a0 + 1, n)
                sel.append(slice(a0, b0)); toks += ["s", a0, 1, b0 - a0]; N2.append(b0 - a0); kept = True
            else:
                j = rng.randrange(n)
                sel.append(j); toks += ["i", j]
        return Node(["getitem"] + a.toks + [d] + toks, lambda env, a=a, sel=sel: a.tt_fn(env)[tuple(sel)],
                    lambda den, a=a, sel=sel: a.dn_fn(den)[tuple(sel)], N2)
    return a


def gen_se(rng, depth, ops, N):
    k = rng.choice(["sumall", "dot", "normsq", "entry", "bil", "sadd", "smul2"] if depth > 0 else ["sumall", "dot", "normsq", "entry"])
    if k in ("sadd", "smul2"):
        x = gen_se(rng, depth - 1, ops, N); y = gen_se(rng, 0, ops, N)
        f = (lambda u, v: u + v) if k == "sadd" else (lambda u, v: u * v)
        return Node([k] + x.toks + y.toks, lambda env, x=x, y=y, f=f: f(x.tt_fn(env), y.tt_fn(env)), lambda den, x=x, y=y, f=f: f(x.dn_fn(den), y.dn_fn(den)), None)
    if k == "bil" and ops["nM"]:
        a = gen_te(rng, max(depth - 1, 0), ops, N); b = gen_te(rng, max(depth - 1, 0), ops, N)
        if "mv" in a.toks or len(N) >= 3:
            a = gen_te(rng, 0, ops, N)
        if "mv" in b.toks or len(N) >= 3:
            b = gen_te(rng, 0, ops, N)
        A = rng.randrange(ops["nM"])

        def dn(den, a=a, b=b, A=A):
            n = int(np.prod(N))
            return a.dn_fn(den).reshape(-1) @ den["M"][A].reshape(n, n) @ b.dn_fn(den).reshape(-1)
        return Node(["bil"] + a.toks + [A] + b.toks, lambda env, a=a, b=b, A=A: torchtt.bilinear_form(a.tt_fn(env), env["M"][A], b.tt_fn(env)), dn, None)
    if k == "dot":
        a = gen_te(rng, depth, ops, N); b = gen_te(rng, max(depth - 1, 0), ops, N)
        return Node(["dot"] + a.toks + b.toks, lambda env, a=a, b=b: torchtt.dot(a.tt_fn(env), b.tt_fn(env)),
                    lambda den, a=a, b=b: (a.dn_fn(den) * b.dn_fn(den)).sum(), None)
    a = gen_te(rng, depth, ops, N) if ops.get("noshape") else wrap_shape_change(rng, gen_te(rng, depth, ops, N))
    if k == "sumall":
        return Node(["sumall"] + a.toks, lambda env, a=a: a.tt_fn(env).sum(), lambda den, a=a: a.dn_fn(den).sum(), None)
    if k == "normsq":
        return Node(["normsq"] + a.toks, lambda env, a=a: a.tt_fn(env).norm(True), lambda den, a=a: (a.dn_fn(den) ** 2).sum(), None)
    idx = [rng.randrange(n) for n in a.N]
    via = rng.choice(["mask", "getitem"])
    if via == "mask":
        ttf = lambda env, a=a, idx=idx: a.tt_fn(env).apply_mask(tn.tensor([idx]))
    else:
        # the same entry addressed with negative positions on some modes (-1 included): dense indexing semantics
        pidx = [i - n if rng.random() < 0.5 else i for i, n in zip(idx, a.N)]
        ttf = lambda env, a=a, pidx=pidx: a.tt_fn(env)[tuple(pidx)]
    return Node(["entry"] + a.toks + [len(idx)] + idx, ttf, lambda den, a=a, idx=idx: a.dn_fn(den)[tuple(idx)], None)


def one(cases, lines, metas, rng, tier, ci):
    d = rng.randint(1, 3)
    N = rand_modes(rng, d, 1, 3, distinct=False)
    nT, nM = rng.randint(1, 3), rng.randint(0, 2)
    Ts = [rand_tt(rng, N, rand_ranks(rng, d, 2), tn.float64, lo=-2, hi=2) for _ in range(nT)]
    Ms = [rand_tt(rng, N, rand_ranks(rng, d, 2), tn.float64, M=N, lo=-1, hi=1) for _ in range(nM)]
    ops = {"nT": nT, "nM": nM}
    depth = rng.randint(1, 3) if tier != "quick" else rng.randint(1, 2)
    # programs: operands scaled by a scalar *expression* (x * torchtt.dot(x, y), x.sum() * y, ...) are defined first, the head may use them
    lets = []
    if ci % 3 == 2:
        # let-programs multiply magnitudes and model cost: shape-preserving sub-expressions only, depth <= 1
        ops = {"nT": nT, "nM": nM, "noshape": True}
        depth = 1
        for _ in range(rng.randint(1, 2)):
            i = rng.randrange(ops["nT"])
            s = gen_se(rng, 0, ops, N)
            # the four scalar operator forms: T*s / s*T, T+s / s+T, T-s, s-T (the scalar is itself a function of the cores)
            lets.append((i, s, rng.random() < 0.5, ["scale", "shift", "ssub", "rsub"][(ci // 3 + len(lets)) % 4]))
            ops = {"nT": ops["nT"] + 1, "nM": nM, "noshape": True}
    e0 = gen_se(rng, depth, ops, N)
    if lets:
        newest = ops["nT"] - 1
        if newest not in {int(e0.toks[i + 1]) for i, t in enumerate(e0.toks) if t == "var"}:
            # make sure the head uses the scaled operand
            e1 = Node(["sumall", "var", newest], lambda env, j=newest: env["T"][j].sum(), lambda den, j=newest: den["T"][j].sum(), None)
            e0 = Node(["sadd"] + e0.toks + e1.toks, lambda env, x=e0, y=e1: x.tt_fn(env) + y.tt_fn(env), lambda den, x=e0, y=e1: x.dn_fn(den) + y.dn_fn(den), None)

    def prog_tt(env, lets=lets, e0=e0):
        env = {"T": list(env["T"]), "M": env["M"]}
        for (i, s, left, kind) in lets:
            sv = s.tt_fn(env)
            x = env["T"][i]
            if kind == "scale":
                env["T"].append(sv * x if left else x * sv)
            elif kind == "shift":
                env["T"].append(sv + x if left else x + sv)
            elif kind == "ssub":
                env["T"].append(x - sv)
            else:
                env["T"].append(sv - x)
        return e0.tt_fn(env)

    def prog_dn(den, lets=lets, e0=e0):
        den = {"T": list(den["T"]), "M": den["M"]}
        for (i, s, left, kind) in lets:
            c = s.dn_fn(den)
            x = den["T"][i]
            den["T"].append(x * c if kind == "scale" else x + c if kind == "shift" else x - c if kind == "ssub" else c - x)
        return e0.dn_fn(den)
    ltoks = []
    for (i, s, left, kind) in lets:
        ltoks += [kind, i] + s.toks
    e = Node(([len(lets)] + ltoks if lets else []) + e0.toks, prog_tt, prog_dn, None)
    alltoks = ltoks + e0.toks
    # operands the head really depends on: variables of the head, and — through every let variable that is reached — the scaled operand
    # and the variables of its scalar expression
    def vars_of(toks):
        return {int(toks[i + 1]) for i, t in enumerate(toks) if t == "var"}
    reach, todo = set(), list(vars_of(e0.toks))
    while todo:
        v = todo.pop()
        if v in reach:
            continue
        reach.add(v)
        if v >= nT:
            (li, ls, _, _) = lets[v - nT]
            todo += [li] + list(vars_of(ls.toks))
    usedT = sorted(v for v in reach if v < nT)
    reached_lets = [lets[v - nT][1].toks for v in reach if v >= nT]
    alltoks = [t for lt in reached_lets for t in lt] + e0.toks
    usedM = sorted({int(alltoks[i + 1]) for i, t in enumerate(alltoks) if t == "mv"})
    kind = "M" if (usedM and rng.random() < 0.4) else "T"
    oi = rng.choice(usedM if kind == "M" else usedT)
    ci_core = rng.randrange(d)
    line = J("adk" if lets else "ad", nT, [tt_tokens(t) for t in Ts], nM, [tt_tokens(m) for m in Ms], kind, oi, ci_core, e.toks)
    box = {}

    def impl():
        env = {"T": [torchtt.TT([c.clone() for c in t.cores]) for t in Ts], "M": [torchtt.TT([c.clone() for c in m.cores]) for m in Ms]}
        target = env[kind][oi]
        mode = rng.choice(["watch-all", "watch-one", "grad_list"])
        # every operand is watched (so that norm() of any sub-expression takes its differentiable, exact branch);
        # the derivative is then taken with respect to the chosen core of the chosen operand
        torchtt.grad.watch_list([o for o in env["T"] + env["M"] if o is not target])
        if mode == "watch-one":
            torchtt.grad.watch(target, [ci_core])
            for k2 in range(len(target.cores)):
                if k2 != ci_core:
                    target.cores[k2].requires_grad_(True)
        else:
            torchtt.grad.watch(target)
        val = e.tt_fn(env)
        val = val.reshape(()) if tn.is_tensor(val) else val
        if mode == "grad_list":
            gl = torchtt.grad.grad_list(val, [target])
            g = gl[ci_core]
        elif mode == "watch-one":
            g = torchtt.grad.grad(val, target, [ci_core])[0]
        else:
            g = torchtt.grad.grad(val, target)[ci_core]
        box["val"], box["g"], box["shape"] = val.detach(), g, list(target.cores[ci_core].shape)
        if g is None:
            return "ad none"
        g4 = g.reshape(g.shape[0], g.shape[1], -1, g.shape[-1])
        return "ad " + num_str(float(val)) + " " + J(list(g4.shape), tensor_tokens(g4))

    def oracle():
        if "g" not in box:
            return "evaluation / differentiation raised"
        g = box["g"]
        if g is None:
            return "gradient is None (the tracked core is detached from the result)"
        if list(g.shape) != box["shape"]:
            return "gradient shape %s differs from the core shape %s" % (list(g.shape), box["shape"])
        coresT = [[c.clone() for c in t.cores] for t in Ts]
        coresM = [[c.clone() for c in m.cores] for m in Ms]
        leaf = (coresM if kind == "M" else coresT)[oi][ci_core]
        leaf.requires_grad_(True)
        den = {"T": [dense_of_cores(cs, False) for cs in coresT], "M": [dense_of_cores(cs, True) for cs in coresM]}
        v2 = e.dn_fn(den)
        from gen import close
        e1 = close(box["val"].reshape(()), v2.detach().reshape(()), 1e-10)   # norm(True) of an untracked sub-expression runs the float QR sweep
        if e1:
            return "value differs from the dense expression: " + e1
        if not v2.requires_grad:
            gd = tn.zeros_like(leaf)
        else:
            v2.reshape(()).backward()
            gd = leaf.grad if leaf.grad is not None else tn.zeros_like(leaf)
        big = max(float(g.abs().max()) if g.numel() else 0.0, float(gd.abs().max()) if gd.numel() else 0.0, abs(float(box["val"]))) >= 2.0 ** 50
        box["big"] = big
        # beyond 2^50 the integer arithmetic of the three evaluations is no longer exact in float64: compare to 1e-10 relative there
        e2 = close(g, gd, 1e-10) if big else exact_equal(g, gd)
        if e2:
            return "gradient differs from the dense derivative: " + e2
        box["nonzero"] = bool((gd != 0).any())
        return None
    head = e0.toks[0] + ("/let%d" % len(lets) if lets else "")
    cases.append(Case(None, impl, oracle, "ad/%s/depth%d/%s-core%d/d%d" % (head, depth, kind, ci_core, d), True, desc=line[:400]))
    lines.append(line)
    metas.append((cases[-1], box))


def api_cases(rng, tier):
    """histories of torchtt.grad.watch / unwatch followed by one grad.grad call: WHICH core's derivative sits in WHICH slot
    (model: TTModel/GradApi.lean, theorems TT.C15c).  Partial watching, negative / repeated / unsorted index lists, positions outside the train."""
    cases = []
    n = 36 if tier == "quick" else 240
    for ci in range(n):
        d = rng.choice([2, 3, 3, 4])
        ttm = (ci % 5 == 4)
        N = rand_modes(rng, d, 1, 3, distinct=False)
        M = rand_modes(rng, d, 1, 2, distinct=False) if ttm else None
        x0 = rand_tt(rng, N, rand_ranks(rng, d, 2), tn.float64, M=M)
        y0 = rand_tt(rng, N, rand_ranks(rng, d, 2), tn.float64, M=M)

        def rnd_idx(k, allow_bad):
            out = []
            for _ in range(k):
                i = rng.randrange(-d, d)
                if allow_bad and rng.random() < 0.15:
                    i = rng.choice([d, -d - 1, d + 1])
                out.append(i)
            return out
        hist = []
        fam = ci % 4
        if fam == 0:       # proper, non-prefix subset, then grad without indices
            sub = sorted(rng.sample(range(d), rng.randint(1, d - 1)))
            if sub == list(range(len(sub))):
                sub = [k + 1 for k in sub] if sub[-1] + 1 < d else [d - 1]
            hist.append(("w", [k if rng.random() < 0.6 else k - d for k in sub]))
            sel = None
        elif fam == 1:     # subset watched, explicit list touching unwatched cores too
            hist.append(("w", rnd_idx(rng.randint(1, d), False)))
            sel = rnd_idx(rng.randint(1, d + 1), ci % 8 == 5)
        elif fam == 2:     # watch all / unwatch / partial re-watch
            hist.append(("wa", None))
            if rng.random() < 0.7:
                hist.append(("u", None))
                hist.append(("w", rnd_idx(rng.randint(1, d - 1), False)))
            sel = None if rng.random() < 0.5 else rnd_idx(rng.randint(1, d), False)
        else:              # two partial watches accumulate
            hist.append(("w", rnd_idx(1, False)))
            hist.append(("w", rnd_idx(1, ci % 8 == 7)))
            sel = None if rng.random() < 0.5 else list(range(d - 1, -1, -1))
        toks = ["gradapi", d, len(hist)]
        for o, idx in hist:
            toks += [o] + ([len(idx)] + idx if idx is not None else [])
        toks += ["all"] if sel is None else ["idx", len(sel)] + sel
        line = J(*toks)
        box = {}

        def impl(x0=x0, y0=y0, hist=hist, sel=sel, box=box, ttm=ttm):
            x = torchtt.TT([c.clone() for c in x0.cores]); y = torchtt.TT([c.clone() for c in y0.cores])
            torchtt.grad.watch(y)              # the value always carries a graph, whatever is watched on x
            try:
                for o, idx in hist:
                    if o == "wa":
                        torchtt.grad.watch(x)
                    elif o == "u":
                        torchtt.grad.unwatch(x)
                    else:
                        torchtt.grad.watch(x, list(idx))
            except IndexError:
                return "gs err-watch"
            box["flags"] = [bool(c.requires_grad) for c in x.cores]
            val = ((x * y).sum() + 2 * (x * x).sum()) if not ttm else ((x * y).sum() + (x * x * y).sum())
            try:
                g = torchtt.grad.grad(val, x) if sel is None else torchtt.grad.grad(val, x, list(sel))
            except IndexError:
                return "gs err-grad"
            box["g"] = g
            def owner(t):
                for k, c in enumerate(x.cores):
                    if c.grad is t:
                        return str(k)
                return "?"
            return "gs %d %s" % (len(g), " ".join("-" if t is None else owner(t) for t in g))

        def oracle(x0=x0, y0=y0, sel=sel, box=box, ttm=ttm, d=d):
            if "g" not in box:
                return None        # IndexError on both sides is decided by the correspondence (model: err-watch / err-grad)
            g, flags = box["g"], box["flags"]
            want = list(range(d)) if sel is None else [i % d for i in sel]
            if len(g) != len(want):
                return "grad returned %d slots where %d are requested" % (len(g), len(want))
            yd = dense_of_cores([c.clone() for c in y0.cores], ttm)
            for slot, k in enumerate(want):
                if not flags[k]:
                    if g[slot] is not None:
                        return "slot %d belongs to the unwatched core %d but is not None" % (slot, k)
                    continue
                if g[slot] is None:
                    return "slot %d belongs to the watched core %d but is None" % (slot, k)
                cs = [c.clone() for c in x0.cores]
                cs[k].requires_grad_(True)
                xd = dense_of_cores(cs, ttm)
                v = ((xd * yd).sum() + 2 * (xd * xd).sum()) if not ttm else ((xd * yd).sum() + (xd * xd * yd).sum())
                v.backward()
                if list(g[slot].shape) != list(cs[k].shape):
                    return "slot %d has shape %s, core %d has shape %s" % (slot, list(g[slot].shape), k, list(cs[k].shape))
                e = exact_equal(g[slot], cs[k].grad)
                if e:
                    return "slot %d is not the derivative with respect to core %d: %s" % (slot, k, e)
            box["checked"] = True
            return None
        cases.append(Case(line, impl, oracle, "gradapi/fam%d/d%d/%s" % (fam, d, "ttm" if ttm else "tt"), True, desc=line, gauge_ok=False))
    # grad_list on operands of DIFFERENT orders (the factors of kron, an operator next to tensors): all_in_one = True gives one flat list,
    # all_in_one = False one list per tensor with that tensor's own number of cores (model: GradApi.gradListNested / gradListFlat)
    for gi in range(12 if tier == "quick" else 60):
        orders = [[2, 3], [1, 3, 2], [3, 2], [2, 2], [1, 2], [3, 1, 2], [2, 4], [4, 1]][gi % 8]
        flat = (gi // 8 + gi) % 2 == 1
        with_ttm = gi % 3 == 2
        xs0 = []
        for t, dd in enumerate(orders):
            Nt = rand_modes(rng, dd, 1, 3, distinct=False)
            Mt = rand_modes(rng, dd, 1, 2, distinct=False) if (with_ttm and t == len(orders) - 1) else None
            xs0.append((rand_tt(rng, Nt, rand_ranks(rng, dd, 2), tn.float64, M=Mt), rand_tt(rng, Nt, rand_ranks(rng, dd, 2), tn.float64, M=Mt), Mt is not None))
        zN = list(xs0[0][0].N) + list(xs0[1][0].N)
        z0 = rand_tt(rng, zN, rand_ranks(rng, len(zN), 2), tn.float64) if not xs0[1][2] else None
        line = J("gradlist", len(orders), *orders, 1 if flat else 0)
        box = {}

        def value(xs, ys, z, dense):
            v = 0
            for t, (x, y) in enumerate(zip(xs, ys)):
                v = v + (t + 1) * (x * y).sum() + (x * x).sum()
            if z is not None:
                k = (xs[0].reshape(list(xs[0].shape) + [1] * (z.dim() - xs[0].dim())) * xs[1].reshape([1] * xs[0].dim() + list(xs[1].shape))) if dense else torchtt.kron(xs[0], xs[1])
                v = v + 2 * (k * z).sum()
            return v

        def impl(xs0=xs0, z0=z0, flat=flat, box=box, value=value):
            xs = [torchtt.TT([c.clone() for c in a.cores]) for a, _, _ in xs0]
            ys = [torchtt.TT([c.clone() for c in b.cores]) for _, b, _ in xs0]
            z = torchtt.TT([c.clone() for c in z0.cores]) if z0 is not None else None
            torchtt.grad.watch_list(xs)
            val = value(xs, ys, z, False)
            gl = torchtt.grad.grad_list(val, xs, all_in_one=flat)
            box["gl"] = gl

            def owner(g):
                for t, x in enumerate(xs):
                    for k, c in enumerate(x.cores):
                        if c.grad is g and g is not None:
                            return "%d.%d" % (t, k)
                return "?"
            if flat:
                return "gl flat " + " ".join(owner(g) for g in gl)
            return "gl nested " + " | ".join(" ".join(owner(g) for g in sub) if isinstance(sub, (list, tuple)) else "?" for sub in gl)

        def oracle(xs0=xs0, z0=z0, flat=flat, box=box, value=value, orders=orders):
            if "gl" not in box:
                return "grad_list raised"
            gl = box["gl"]
            if flat:
                if len(gl) != sum(orders):
                    return "all_in_one=True: %d entries for %d cores" % (len(gl), sum(orders))
                nested, pos = [], 0
                for dd in orders:
                    nested.append(gl[pos:pos + dd]); pos += dd
            else:
                if len(gl) != len(orders):
                    return "all_in_one=False: %d lists for %d tensors" % (len(gl), len(orders))
                if [len(sub) for sub in gl] != list(orders):
                    return "all_in_one=False: lists of lengths %s for tensors of orders %s" % ([len(sub) for sub in gl], list(orders))
                nested = gl
            css = [[c.clone().requires_grad_(True) for c in a.cores] for a, _, _ in xs0]
            xd = [dense_of_cores(cs, ttm) for cs, (_, _, ttm) in zip(css, xs0)]
            yd = [dense_of_cores([c.clone() for c in b.cores], ttm) for _, b, ttm in xs0]
            zd = dense_of_cores([c.clone() for c in z0.cores], False) if z0 is not None else None
            value(xd, yd, zd, True).backward()
            for t, sub in enumerate(nested):
                for k, g in enumerate(sub):
                    if g is None:
                        return "entry [%d][%d] is None although the tensor is watched" % (t, k)
                    if list(g.shape) != list(css[t][k].shape):
                        return "entry for tensor %d core %d has shape %s, the core has shape %s" % (t, k, list(g.shape), list(css[t][k].shape))
                    e = exact_equal(g, css[t][k].grad)
                    if e:
                        return "entry for tensor %d core %d is not the derivative with respect to that core: %s" % (t, k, e)
            return None
        cases.append(Case(line, impl, oracle, "gradlist/%s/orders%s%s" % ("flat" if flat else "nested", "".join(map(str, orders)), "/ttm" if with_ttm else ""), True, desc=line, gauge_ok=False))
    # operands produced by the FACTORIES (ones / zeros / eye / rank-one / kron of those), with repeated mode sizes: every core position is its own
    # leaf — watching one core must not track another position, and each slot is the derivative with respect to that position alone
    for fi in range(8 if tier == "quick" else 40):
        N = [[3, 3, 2], [2, 2, 2, 2], [3, 2, 3], [2, 2]][fi % 4]
        d = len(N)
        maker = ["ones", "eye", "zeros", "ones-kron"][(fi // 4 + fi) % 4]
        k = rng.randrange(d)
        y0 = rand_tt(rng, N, rand_ranks(rng, d, 2), tn.float64, M=(N if maker == "eye" else None))
        line = J("gradapi", d, 1, "w", 1, k, "all")
        box = {}

        def mk(maker=maker, N=N):
            if maker == "ones":
                return torchtt.ones(N)
            if maker == "zeros":
                return torchtt.zeros(N)
            if maker == "eye":
                return torchtt.eye(N)
            return torchtt.kron(torchtt.ones(N[:1]), torchtt.ones(N[1:]))

        def impl(mk=mk, y0=y0, k=k, box=box, maker=maker):
            x = mk()
            y = torchtt.TT([c.clone() for c in y0.cores])
            torchtt.grad.watch(y)
            box["cores0"] = [c.detach().clone() for c in x.cores]
            torchtt.grad.watch(x, [k])
            box["flags"] = [bool(c.requires_grad) for c in x.cores]
            val = (x * y).sum() + 2 * (x * x).sum()
            g = torchtt.grad.grad(val, x)
            box["g"] = g

            def owner(t):
                for kk, c in enumerate(x.cores):
                    if c.grad is t:
                        return str(kk)
                return "?"
            return "gs %d %s" % (len(g), " ".join("-" if t is None else owner(t) for t in g))

        def oracle(box=box, y0=y0, k=k, d=d, maker=maker):
            if "g" not in box:
                return "watch / grad on a factory-built operand raised"
            g = box["g"]
            if box["flags"] != [i == k for i in range(d)]:
                return "watch(x, [%d]) on a %s operand tracks the cores %s" % (k, maker, [i for i, f in enumerate(box["flags"]) if f])
            ttm = maker == "eye"
            cs = [c.clone() for c in box["cores0"]]
            cs[k].requires_grad_(True)
            xd = dense_of_cores(cs, ttm)
            yd = dense_of_cores([c.clone() for c in y0.cores], ttm)
            v = (xd * yd).sum() + 2 * (xd * xd).sum()
            v.backward()
            for slot in range(d):
                if slot != k:
                    if g[slot] is not None:
                        return "slot %d (unwatched) is not None" % slot
                    continue
                if g[slot] is None:
                    return "slot %d (watched) is None" % slot
                e = exact_equal(g[slot], cs[k].grad)
                if e:
                    return "slot %d is not the derivative with respect to core %d alone: %s" % (slot, k, e)
            return None
        cases.append(Case(line, impl, oracle, "gradapi/factory-%s/d%d" % (maker, d), True, desc="%s N=%s watch [%d]" % (maker, N, k), gauge_ok=False))
    return cases


def run(res, rng, tier, known):
    from common import run_cases
    cases, lines, metas = [], [], []
    n = 120 if tier == "quick" else 800
    for ci in range(n):
        one(cases, lines, metas, rng, tier, ci)
    # run implementation + oracle
    impl_out = []
    run_cases(res, cases, known)
    run_cases(res, api_cases(rng, tier), known)
    # model: dual numbers
    outs = run_driver(lines, main="MainAD.lean")
    nz = 0
    for (c, box), line, mo in zip(metas, lines, outs):
        res.model_cases += 1
        if mo.startswith("bad"):
            raise RuntimeError("AD driver rejected: %s :: %s" % (mo, line[:200]))
        if "g" not in box or box["g"] is None:
            continue
        g = box["g"]
        g4 = g.reshape(g.shape[0], g.shape[1], -1, g.shape[-1])
        io = "ad " + num_str(float(box["val"])) + " " + J(list(g4.shape), tensor_tokens(g4))
        from fractions import Fraction
        mt = mo.split()
        mv = Fraction(mt[1]); iv = float(box["val"])
        val_ok = abs(float(mv) - iv) <= 1e-9 * max(1.0, abs(iv))
        same = io.split()[2:] == mt[2:]
        if not same and box.get("big") and io.split()[2:6] == mt[2:6]:
            gi = [float(Fraction(t.split(",")[0])) for t in io.split()[6:]]
            gm = [float(Fraction(t.split(",")[0])) for t in mt[6:]]
            scale = max([abs(v) for v in gm] + [1.0])
            same = len(gi) == len(gm) and all(abs(a - b) <= 1e-10 * scale for a, b in zip(gi, gm))
        if val_ok and same:
            res.core_equal += 1
        else:
            res.violation({"property": "C15", "kind": "correspondence", "class": c.cls, "case": line, "impl_outcome": io, "model_outcome": mo,
                           "note": "autograd gradient of the real code differs from the dual-number derivative of the model"}, no_input=True)
        if box.get("nonzero"):
            nz += 1
    res.extra["nonzero_gradients"] = nz
    return {"level": LEVEL, "rule": RULE, "assumptions": ASSUMPTIONS,
            "not_by_theorem": ["autograd itself; shape-changing operations inside expressions (kron, cat, pad, mprod, partial sums, slicing) are covered by their own value theorems (C03/C07/C08/C09) but the expression-level theorem evalT_eq_dense is stated for the shape-preserving fragment",
                               "the TT layer's gradients are checked in C20"]}
