"""writes /verif/MANIFEST.json from the table below (kept next to the harness so that the manifest never drifts)"""
import json, os
HERE = os.path.dirname(os.path.abspath(__file__))
ROOT = os.path.dirname(HERE)

TECH = "Lean 4 proof over hand-written executable model + exact correspondence check against the real code"
TECH_GEN = TECH + "; for the contraction kernels additionally a translator tie: the einsum subscripts are read from the current source, translated to Lean and checked definitionally equal (rfl) to the model kernels on every run"
TB = ("trusted: Lean kernel + imported Mathlib modules, axioms ⊆ {propext, Classical.choice, Quot.sound} (audited by #print axioms on every run); "
      "hand-written model, tied to /repo only as far as this run's correspondence exercises it; torch primitives on exact inputs; ")

CHECKS = {
 "C01": ("proof",
         "Lean theorems (any linearly ordered commutative ring): rank_chop returns a rank in [1,len], the discarded energy never exceeds eps² (exact ties included), "
         "it is the least admissible rank, rmax caps, and the per-bond allowances (d-1)·(eps²/(d-1)) sum to eps²; a `decide`d counterexample shows the pre-fix strict comparison broke the bound. "
         "Tie to code: rank_chop compared exactly with the model on integer spectra, and every rank decision taken inside TT(...) is recorded and replayed through the model in exact rationals. "
         "Value level: the sweeps to_tt / mat_to_tt are modelled with the SVD as an oracle parameter (Decomp.toTT / toTTM); theorems toTT_exact / toTTM_exact: with any oracle satisfying U·W = C the train reproduces every in-range entry of the array; tie: the real constructor is run with an exact integer oracle installed from outside and compared core by core with the same definition. "
         "The Frobenius bound of the whole sweep is the abstract theorem ttsvd_sweep_bound (any real/complex inner-product space: if each step is the orthogonal projection of the current partial approximation onto a subspace of the previous one and discards tailE s (rankChop s (ep·‖x_k‖)), and (d-1)·ep² <= eps², then ‖A - Â‖ <= eps·‖A‖); that the code's truncated SVD steps ARE such projections is the SVD contract (orthonormal factors), assumed, monitored per call, and the bound itself is checked by the property's oracle on every constructed object.",
         TB + "SVD contract (tn.linalg.svd) assumed and monitored per call; on the core-level model of the sweep (Decomp.toTT / toTTR, tied exactly) the squared error equals the sum of the discarded energies (toTT_errSq, toTTR_errSq) for every oracle whose kept columns are orthonormal and orthogonal to the residual, and every bond obeys its rmax cap for any oracle (toTTR_bondRanks_le); float roundoff outside the model", "§5 C01"),
 "C03": ("proof",
         "Lean theorems for every order / mode / rank profile / core value over any commutative ring: +, -, * (incl. torch-style broadcasting of the right operand), unary minus, scalar +,-,*,/ from either side, Kronecker product, and the factories (ones, zeros, eye, rank-1, meshgrid) equal the dense expression entry for entry; ranks add / multiply by definition of the modelled cores. "
         "Tie: exact core-by-core comparison of the model with the real code on structured integer cases + independent dense oracle, dtype and rank-structure checks on every case.",
         TB + "dtype preservation is oracle-checked (not a theorem); float roundoff outside the model", "§5 C03"),
 "C04": ("proof",
         "Lean theorems: A@x, x@A, A@B equal Σ_k A(i,k)·B(k,j) over all inner multi-indices, A@dense (any batch prefix) and transpose equal the dense operator expression, product ranks are products, for every order / rectangular mode pattern / rank profile / core value; TT-matrix +,-,*,scalar ops share the C03 theorems through the unified 4-index core. "
         "Tie: exact core-level correspondence on rectangular integer cases (rows/cols/inner sizes distinct), dense oracle on every case.",
         TB + "dtype preservation oracle-checked; roundoff outside the model", "§5 C04"),
 "C07": ("proof",
         "Lean theorems: the left-to-right sweeps of sum() (all / any subset of modes incl. the singleton-removal pass), dot (Gram chain, conjugating the second argument), squared norm (autograd branch), bilinear_form and apply_mask equal the dense reductions for all orders, mode/rank profiles and core values (conjugation = any ring endomorphism). "
         "Tie: exact correspondence on integer / Gaussian-integer cases; the QR-sweep norm is replayed with an exact integer QR oracle against Decomp.normSqQR (theorems C07d) and compared numerically (1e-12) with the exact Gram value; translator tie for the three einsum strings of bilinear_form_aux (generated Lean defs = Reduce.bilA/B/C by rfl; theorems C07e).",
         TB + "norm() via QR relies on tn.linalg.qr being orthonormal (numerical comparison only); sqrt outside the model", "§5 C07"),
 "C08": ("proof",
         "Lean theorems: per-core slicing (ints, slices with steps, None) followed by the removal of integer-indexed modes returns exactly the dense sub-array (value and shape), fully integer indices give the scalar entry, reduce_dims preserves the represented tensor for every exclusion list, apply_mask evaluates full at the given indices. "
         "Tie: exact correspondence + dense-indexing oracle over enumerated index-kind combinations (negative ints, length-1 slices, steps, None positions, leading/trailing Ellipsis), tensors and operators.",
         TB + "python/torch normalisation of negative ints and slices is a trusted primitive; TT-matrix indexing is covered by model+correspondence+oracle, its value theorem is the tensor one applied per row/column selector", "§5 C08"),
 "C09": ("proof",
         "Lean theorems: cat (block placement with running offsets), pad (tensor branch: constant fill of any value after the repair; zero fill core-wise), diag in both directions, mprod, to_ttm, conj, clone equal the dense operation for every order / mode / rank profile / core value. The operator branch of pad is covered by model + exact correspondence + dense oracle. "
         "Tie: exact core-level correspondence; dense oracle (torch.cat, F.pad, diag, tensordot) on every case.",
         TB + "operator padding has no Lean theorem yet (model + correspondence + oracle only)", "§5 C09"),
 "C02": ("proof",
         "Lean theorems (M-trunc, shared with C01, restated for the call pattern of round_tt): the rank chosen at every bond is >= 1, <= the old rank, <= rmax; when rmax is not binding the discarded energy is within the per-bond allowance (ties included); an unfolding whose tail singular values vanish is compressed to its true rank for every eps > 0; the d-1 allowances sum to eps². "
         "Tie: every rank decision taken inside round() is recorded and replayed through the model in exact rationals; the oracle checks error bound, the three rank bounds (old rank, rmax, exact unfolding rank), shape, and bit-identity of the operand afterwards, on inflated / rank-deficient / badly scaled / zero / generic operands. "
         "Value level: lr_orthogonal / round_tt for tensors and TT-matrices modelled with QR/SVD oracles (lrOrth_full, roundTT_full, lrOrthM_full, roundTTM_full: exact factorisations => same tensor, ranks chain, modes kept); the real sweeps run with exact integer oracles are compared core by core with the models.",
         TB + "the error identity of the whole sweep IS a theorem of the sweep model (roundTT_errSq: squared error = sum of the discarded energies) under the oracle contract 'QR returns orthonormal columns, the truncated SVD keeps orthonormal rows orthogonal to the residual'; that LAPACK's factorisations satisfy this contract is trusted (SVD monitored per call); roundoff outside the model", "§5 C02"),
 "C05": ("proof",
         "Lean theorems over the structural model M-shape: whatever the validating constructor accepts is well formed (cores all 3-d or all 4-d, ranks chain, boundary ranks 1, N/M/R/shape/is_ttm describe exactly those cores, full() shape = M+N); set_core and reduce_dims preserve well-formedness; hence every object in every store reachable by ANY finite history of constructor / set_core / reduce_dims calls is well formed (reachable_wf, induction over histories). "
         "Tie: random walks over ~40 public operations incl. solvers with guesses from the store; after each call every live object is checked against the property directly, and every constructor / set_core / reduce_dims call observed during the walks is replayed through the model (exact comparison of kind, N, M, R, shape, or exception class).",
         TB + "that every public operation other than the two in-place ones builds its result through the validating constructor is observed (constructor wrapper), not proved per operation", "§5 C05"),
 "C06": ("proof",
         "Lean theorems over the effect model M-heap: no call changes the observables (core-list identity, element identities, version counters) of a pre-existing object unless it is a documented in-place call targeting that object; by induction over histories of any length an object keeps its observables whatever is later computed from it or its operands (history_stable, result_stable). "
         "Tie: systematic sweep over every walker operation and argument position (incl. optional initial guesses of DMRG/AMEn/solve/divide/cross) plus random histories re-using results and views; before/after each call ranks, shape, dtype, dense value, list identity, element identities and version counters of EVERY live object are compared; the observed write-sets are compared with the model's effect classes.",
         TB + "the assignment of each Python operation to an effect class is validated by observation on every call of the run, not proved; raw-constructor list sharing is an explicit hypothesis", "§5 C06"),
 "C10": ("proof",
         "Lean theorems: (L) the two-cursor merge/split loop of reshape, modelled on mode sizes, terminates and returns EXACTLY the requested mode sizes whenever the element counts agree (every ordered factorisation / merge, singleton modes anywhere), with at most len(target) SVD splits; permute's bubble sort ends in the requested order for every permutation, with swaps = inversions <= d(d-1)/2, and the per-swap allowances eps/d^1.5 add up to at most (sqrt(d)/2)*eps; (E) merging two neighbouring cores with row-major index arithmetic preserves the flattened tensor; absorbing size-1 cores preserves it (C08 lemma); (value level, tensor branch, SVD/QR as oracle parameters) permuteTT_full: with exact factorisations permute(x, dims) carries entry (i_0..i_{d-1}) to position (i_dims[0],..,i_dims[d-1]) for every permutation, and reshapeTT_full / reshapeTT_total: reshape terminates with a well-formed train of exactly the target modes whose entries agree with x at equal row-major flat index. "
         "Tie: mode sizes and the number of SVD splits / swaps observed on the real reshape / permute are compared exactly with the model; rank decisions are replayed through M-trunc; the oracle checks requested shape and ||result - dense reshape/permute|| <= 10*eps*||x|| for every enumerated factorisation, all permutations of <= 4 (5) modes, QTT shapes, tensors and operators, real and complex; the real permute / reshape / rl_orthogonal are additionally run with exact integer SVD/QR oracles installed from outside and compared core by core with the value-level models (Permute.permuteTTWith, Reshape.reshapeTTWith).",
         TB + "the eps bound of the truncating pipeline needs the QR/SVD contracts (orthonormal factors) and is checked by the oracle, not proved; the TT-matrix branches of reshape/permute and to_qtt/qtt_to_tens are covered by the control-flow model and the oracle only", "§5 C10"),
 "C11": ("proof",
         "PARTIAL BY NATURE. Lean theorems (kind E): the Phi recursions of the AMEn matrix product are the exact left/right partial contractions of <X, A·B>, and the local right-hand side `_local_AB` tested against any core V equals the global trilinear form with X's k-th core replaced by V (localAB_galerkin), the full sweep equals Σ X(i,j)·Σ_k A(i,k)B(k,j) (abxSweep_eq_dense): the local problems are the exact Galerkin projections of the exact product. "
         "Tie: the module-level kernels of _amen.py are compared exactly with the models on integer data. The headline inequality ||y - A x|| <= C·eps·||A x|| (kind K: no convergence proof of DMRG/AMEn exists) is MONITORED, not proved: fast_matvec, dmrg_hadamard, amen_mv, amen_mm vs the exact product for orders 1..6, random and user guesses, complex for DMRG (C = 10; observed <= 0.7·eps).",
         TB + "error bound only monitored (truncation, kick and stopping rule of the sweeps are not modelled); the core update of _amen_mm_python after each local step (truncated SVD factors, rank enrichment by the residual block, QR, absorption into the next core) is modelled (TTModel/AmenStep.lean) and proved not to change the represented tensor beyond the SVD truncation (TT.C12d.updateEnrich_chain, update_full: rank enrichment is invisible for ANY enrichment block given Q·R = [u|uk]); the cores written back by the running loop are recomputed by that model on the factors of the run and the QR hypothesis is checked; translator tie: the subscripts of _compute_phi_fwd_AB/_bck_AB/_fwd_x/_bck_x/_local_AB and of the 22 inline einsum calls of dmrg_matvec_python / dmrg_hadamard_python are extracted from the current source, translated to Lean and checked definitionally equal to the model kernels / chains (harness/einsum2lean.py); the chains are proved equal to the one-shot kernels dmrgSuper, dmrgPhiBck/Fwd (on the diagonal embedding for the Hadamard product) in C11c; the inline einsum chains of _dmrg.py and the environments stored by the DMRG / AMEn product loops are tied by observing the running functions from outside (sys.settrace) and recomputing them with the Lean kernels dmrgPhiBck/Fwd, dmrgSuper (theorem dmrgSuper_galerkin), localAB and the folds in exact rationals; QR/SVD contracts", "§5 C11"),
 "C12": ("proof",
         "PARTIAL BY NATURE. Lean theorems (kind E): `_compute_phi_fwd_A/bck_A/…_rhs` are the exact partial contractions of <x, A y> and <b, x>; `_LinearOp.matvec` (tensordot sequence) equals `_local_product`; Galerkin exactness: <x[k:=v], A x[k:=u]> = <v, localProduct(Φ_l, A_k, Φ_r) u> and <b, x[k:=v]> = <v, localRhs> for every position, order, rank profile and core value — the local systems AMEn solves are the exact projections of the global system. "
         "Tie: every kernel of solvers.py (dense and banded local product, _LinearOp with and without preconditioners, phi recursions) compared exactly with the models on integer data; preconditioner blocks checked against the stated diagonal blocks. The residual inequality ||A x - b|| <= C·eps·||b|| (kind K) is MONITORED over SPD / diagonally dominant / Laplacian-like systems, all preconditioners, GMRES / BiCGSTAB / direct local solves, guesses, seeds (C = 10).",
         TB + "residual bound only monitored (known finding for BiCGSTAB); C12c: the local residual B u - rhs tested against any core equals the global residual A y - b tested against the train with that core (local_residual_galerkin), so an exact solution satisfies every local system exactly (exact_solution_local_fixed_point: the sweep leaves an exact solution where it is) and a solved local system makes the global residual orthogonal to the local variations (local_solution_galerkin_orthogonal); C12d: the block after the local solve (truncated SVD, enrichment, QR, absorption) never changes the represented tensor beyond the SVD truncation (update_full), and the residual-driven rank rule returns a rank in [1, min(n, rmax)] whose truncation passed the test unless it is the full rank (rankByResidual_bounds/_accepts; Python loop-variable quirk: never below 2); tie: res_new / res_old reported by the running loop are recomputed as the true local residuals through Kern.localProduct, the rank used is recomputed by Amen.rankByResidual from the recorded tests, the cores written back are recomputed by Amen.update on the factors of the run (direct and iterative local solvers, all preconditioners); translator tie for the six solver kernels (einsum2lean.py); GMRES/BiCGSTAB/torch.linalg.solve numerics outside the model (gmres / gmres_restart have direct contract cases); truncation/enrichment covered by M-trunc only; the loop itself is tied by observation: before every direct local solve of a running _amen_solve_python the assembled local matrix, the local right-hand side and the stored environments are recomputed by localProduct / localRhs / foldFwdA / foldBckA / foldFwdRhs / foldBckRhs in exact rationals (the environments of local_galerkin / rhs_galerkin are the ones the loop holds)", "§5 C12"),
 "C13": ("proof",
         "PARTIAL BY NATURE. Lean theorems: scalar division is exact and inverts scalar multiplication; diag(y) acts as the Hadamard product (so the system solved is y*q = x entrywise); the 3-index kernels of _division.py equal the C12 kernels on the diagonal embedding of the divisor core, hence the C12 Galerkin theorems transfer. "
         "Tie: division kernels compared exactly with the models; ||q*y - x|| <= C·tol·||x|| (kind K) MONITORED for x/y, s/y, elementwise_divide with/without preconditioner and guess (C = 10); every sixth case has a complex numerator (known finding C13/complex-gmres-local-solve: complex operands fail when a local system is large enough for the GMRES local solver; classified by counting the GMRES calls of the case).",
         TB + "residual bound only monitored; loop state of the running amen_divide (incl. the block after the local solve: reported residuals, rank rule, truncation + enrichment, tied to TTModel/AmenStep.lean as in C12; translator tie for the six division kernels) (local matrix, rhs, environments) recomputed by the C12 kernels and folds on diag(a)", "§5 C13"),
 "C14": ("proof",
         "Index safety at proof level, quality PARTIAL BY NATURE. Lean theorems over the index-bookkeeping model: every update of the left/right index sets by a decoded pivot (np.unravel_index) keeps every multi-index inside its mode sizes; every row of every eval_index matrix has length d and column k in [0, N[k]); lifted by an invariant over the exact loop schedule of dmrg_cross (init pass, then LR/RL sweeps, any number of sweeps, any order d) to ALL function calls of every run, given only that _maxvol returns row numbers below the number of rows (dmrg_cross_calls_inRange). "
         "Tie: every index matrix handed to the user function and every index-set update observed on real runs is replayed through the Lean model and compared EXACTLY (≈200 events per run); the oracle checks dtype, shape M×d, column ranges, and for function_interpolate that every value handed to the function is an actual entry of the argument tensors. Approximation quality (kind K) is MONITORED (C = 50).",
         TB + "_maxvol's row bookkeeping is modelled (TTModel/Maxvol.lean) and every returned position is proved to be a row number for every LU pivot vector and every history of loop decisions (TT.C14b.maxvol_inRange, given that torch's LU pivot vector holds row numbers and topk+unravel_index return a position inside the matrix: both checked on every recorded call); every _maxvol call of the run is replayed exactly through the model; approximation quality only monitored (known finding for mostly-zero targets)", "§5 C14"),
 "C16": ("proof",
         "Lean theorems over the model of manifold.py: `_delta2cores` represents exactly the sum of the d tangent terms L_0…L_{k-1} δ_k R_{k+1}…R_{d-1} (full_delta2cores) with interior ranks exactly twice those of x (ranks_twice / ranks_project_le); the projection is linear in z at the level of the represented tensor (project_add, project_smul, for z, w of arbitrary ranks); it fixes the base point given only left-orthonormality of the gauge (proj_fixed, gauge conditions as algebraic hypotheses). "
         "Tie: `_delta2cores` compared exactly on integer cores; for riemannian_projection the gauges computed by the implementation are captured and the model's projection (exact rationals) is compared with the real one (1e-9); the six identities of the property (linear, idempotent, self-adjoint, fixes x, residual orthogonal, rank <= 2r) and riemannian_gradient = P(Euclidean gradient) for three function families are checked numerically on every case.",
         TB + "translator tie for the two Gram recursions Pleft / Pright of riemannian_projection (TT-matrix branch); idempotence, self-adjointness, residual orthogonality, Pythagoras are Lean theorems (proj_idempotent under orthonormal gauges, proj_selfadjoint unconditionally, proj_orthogonal_projector) whose hypotheses (orthonormal gauges, equal rank profiles) are checked numerically on the gauges each run used; that QR returns orthonormal factors is the trusted contract; riemannian_gradient = P(grad f) rests on autograd and is an oracle check", "§5 C16"),
 "C17": ("proof",
         "PARTIAL BY NATURE. Lean theorems about the C++ rank selection (counting-down loop of cpp/ortho.h): rank in [1,len] and discarded energy < eps² for eps>0, it is the least rank with strictly smaller tail, it coincides with the Python rank_chop except at exact ties (where it keeps one more value) and Python's rank <= C++'s; documented difference at eps <= 0. "
         "Tie: the extension is rebuilt from /repo/cpp on every source change (plus a 5-line verification-only shim exposing rank_chop) and C++ rank_chop is compared exactly with the model; both backends are run on the same systems / products (all preconditioners, with/without guess): same inputs accepted/rejected, both satisfy the C11/C12 contracts, mutual residual distance within them (MONITORED, kind K).",
         TB + "C++ solver internals other than rank_chop are not modelled; built with -std=c++20; accuracy contracts monitored", "§5 C17"),
 "C15": ("proof",
         "Lean theorems: for every well-typed expression over {var, +, -, *, unary -, scalar *, scalar +, A@x} with a scalar head in {sum, dot, norm², entry, bilinear form, sums/products of those}, TT evaluation equals dense evaluation over ANY commutative ring; instantiated at dual numbers a+b·eps (carrier and operations are exactly the driver's) value AND derivative agree, i.e. every partial derivative w.r.t. every core entry of every operand equals the dense one (grad_eq_dense). "
         "Tie: random programs of depth 1..3 (also with kron, cat, pad, mprod, partial sums, slicing inside) are differentiated by torch autograd through the real torchtt (grad.grad / grad_list / watch variants) and compared EXACTLY, entry by entry, with the model's dual-number evaluation and with an independent dense autograd graph.",
         TB + "programs in which an operand is scaled by, added to or subtracted from a scalar EXPRESSION of tracked cores (x*s, x+s, x-s, s-x with s = dot(x,y), …) are covered by evalProgK_eq_dense / gradProgK_eq_dense (C15d) and generated in all four forms; C15c: grad.grad returns one slot per core (or per listed, possibly negative/repeated index), slot k belongs to core k and is None exactly for unwatched cores, for every history of watch/unwatch (model TTModel/GradApi.lean, tied on histories with partial watching); torch.autograd trusted; 'algebraic derivative = analytic derivative' for polynomial maps; expression-level theorem covers the shape-preserving fragment, shape-changing operations rely on their own value theorems (C03/C07/C08/C09) plus the exact correspondence", "§5 C15"),
 "C18": ("proof",
         "Lean theorems over the guard model: for +,-,* and @ between TT objects, whenever the operands have no dense counterpart (kind mismatch, non-broadcastable / unequal shapes) the guard returns an exception class and never `ok` (reject_complete), the documented class is the one returned (IncompatibleTypes / ShapeMismatch / InvalidArguments), @ accepts exactly the compatible pairs; the constructor's rejection logic is the M-shape theorem. "
         "Tie: malformed stream (~1100 cases: every entry point x incompatibility class x position) executed on the real code with the property as oracle (must raise; documented class where the docstring names one), guard/constructor outcomes compared with the model outcome-class by outcome-class; a control stream checks that compatible calls are not rejected.",
         TB + "mprod list form: accepted iff TT tensor, equal list lengths and every pair compatible at the time it is reached (mprodList_guard; a surplus matrix or mode is rejected after the repair ce6a0be); entry points whose guards are not modelled in Lean (solvers, interpolate, reshape/permute argument checks, indexing, set_core) are decided by the oracle on the malformed stream only", "§5 C18"),
 "C19": ("proof",
         "Lean theorems: rebuilding an object from its cores alone (what load, clone, detach, to, cpu do) reproduces exactly the same kind, N, M, R and shape for every well-formed object (meta_fromCores), including after set_core / reduce_dims and for every reachable object (meta_reachable); metadata is unique given the cores. "
         "Tie: save->load / clone / detach / to / cpu / numpy on TT tensors and matrices of order 1..6 incl. TT-SVD outputs (numpy ints in R) and non-contiguous views: cores bit-identical, metadata identical and equal to the Lean constructor model on the core shapes, clone shares no storage.",
         TB + "torch.save/torch.load/pickle trusted for the tensors themselves", "§5 C19"),
 "C20": ("proof",
         "Lean theorem forward_eq: for every order, mode/rank profile, core value and batch index, the successive-tensordot forward pass equals Σ_j W(i,j)·x(b,j) + bias(i) with W = full(cores). "
         "Tie: exact correspondence on integer layers for 0..3 batch dims, both initialisers and dtypes; parameters registration and exact gradients are compared with an independent dense autograd graph on every case.",
         TB + "autograd itself and parameter registration are oracle-checked, not theorems; forward is also run inside histories on ONE layer object (train/eval mode, grad/no_grad, in-place updates, load_state_dict, SGD steps in between) and compared with the model on the parameter values of that moment (no hidden state)", "§5 C20"),
}

NOT_YET = {
 "C02": "check under construction in this session (rounding: M-trunc theorems exist under C01; harness not written yet)",
 "C05": "check under construction (M-shape model of reachable objects)",
 "C06": "check under construction (effect / aliasing model)",
 "C10": "check under construction (reshape/permute/QTT)",
 "C11": "check under construction (DMRG/AMEn products: kernels + contract monitor)",
 "C12": "check under construction (AMEn solve: kernels + contract monitor)",
 "C13": "check under construction (division)",
 "C14": "check under construction (cross approximation index safety)",
 "C15": "check under construction (dual-number gradients)",
 "C16": "check under construction (Riemannian projection)",
 "C17": "check under construction (C++ backend; rank_chop twin theorems exist)",
 "C18": "check under construction (guard decision logic)",
 "C19": "check under construction (save/load round trip)",
}


PENDING = set()   # built, waiting for their Lean theorems to be merged


def main():
    checks = []
    for pid in sorted(CHECKS):
        if pid in PENDING:
            NOT_YET[pid] = "check written and passing; its Lean theorems are being merged (claimed as soon as they are registered)"
            continue
        cat, text, note, ref = CHECKS[pid]
        checks.append({
            "property_id": pid,
            "quick_cmd": "/venv/bin/python harness/check.py %s --tier quick" % pid,
            "thorough_cmd": "/venv/bin/python harness/check.py %s --tier thorough" % pid,
            "evidence_file": "evidence/%s.json" % pid,
            "replay_cmd_template": "/venv/bin/python harness/check.py %s --replay {path}" % pid,
            "engine": "lean-model+correspondence",
            "level_claimed": {"category": cat, "text": text, "design_ref": "DESIGN.md " + ref},
            "level_note": note,
            "technique": TECH_GEN if pid in ("C07", "C11", "C12", "C13", "C16") else TECH,
        })
    man = {
        "version": 1,
        "setup_cmd": "cd lean && lake build && cd .. && /venv/bin/python harness/build_cpp.py",
        "hooks": {"guard": "TORCHTT_VERIF",
                  "enable": "no source hooks are needed: all observation is from outside (module attribute wrapping, version counters, storage pointers); the variable is not read by /repo",
                  "baseline_off_cmd": "cd /repo && /venv/bin/python -m pytest -ra -q -p no:cacheprovider --timeout=900 --continue-on-collection-errors",
                  "source_commits": [], "add_only": True},
        "engines": [{"name": "lean-model+correspondence", "path": "harness/check.py", "serves_properties": sorted(k for k in CHECKS if k not in PENDING),
                     "kind_free_text": "Lean 4 theorems about hand-written executable models (lean/TTModel), tied to /repo on every run by an exact differential execution of the models (lake env lean --run MainDriver.lean / MainAD.lean) against the real torchtt, plus the property's own dense oracle on every case"}],
        "checks": checks,
        "not_applicable": [{"property_id": k, "reason": v} for k, v in sorted(NOT_YET.items()) if k not in CHECKS or k in PENDING],
        "notes": "fix: commits in /repo are listed in known_findings.json (kind=fixed); unrepaired defects are kind=finding",
    }
    json.dump(man, open(os.path.join(ROOT, "MANIFEST.json"), "w"), indent=1, ensure_ascii=False)
    print("MANIFEST: %d checks, %d not_applicable" % (len(checks), len(man["not_applicable"])))


if __name__ == "__main__":
    main()
