#!/bin/bash
# run the repository's pinned test-suite (guard off) and print the pass/fail summary line
cd /repo && /venv/bin/python -m pytest -ra -q -p no:cacheprovider --timeout=900 --continue-on-collection-errors 2>&1 | grep -E "passed|failed|error" | tail -3
