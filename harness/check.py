#!/venv/bin/python
"""
Entry point of every registered check:   harness/check.py <Cxx> [--tier quick|thorough] [--replay file]

exit 0  property held on everything explored (KNOWN-FINDING lines allowed)
exit 1  VIOLATION property=<id> replay=<path> [no-failing-input-found]
exit 2  infrastructure failure / timeout (never prints a VIOLATION line)
"""
import sys, os, random, importlib, traceback, json, time, signal

sys.dont_write_bytecode = True
HERE = os.path.dirname(os.path.abspath(__file__))
sys.path.insert(0, HERE)
os.environ.setdefault("PYTHONDONTWRITEBYTECODE", "1")
for _v in ("OMP_NUM_THREADS", "MKL_NUM_THREADS"):      # the cases are small: more threads only oversubscribe the machine when checks run side by side
    os.environ.setdefault(_v, "4")


def main():
    args = sys.argv[1:]
    if not args:
        print("usage: check.py <Cxx> [--tier quick|thorough]")
        return 2
    prop = args[0]
    tier = os.environ.get("VERIF_TIER", "quick")
    replay = None
    i = 1
    while i < len(args):
        if args[i] == "--tier":
            tier = args[i + 1]; i += 2
        elif args[i] == "--replay":
            replay = args[i + 1]; i += 2
        else:
            i += 1
    if tier not in ("quick", "thorough"):
        tier = "quick"
    seed = int(os.environ.get("VERIF_SEED", "0") or 0)
    budget = int(os.environ.get("VERIF_TIMEOUT", "1500" if tier == "quick" else "14000"))

    def on_alarm(signum, frame):
        print("TIMEOUT %s after %ds" % (prop, budget))
        os._exit(2)
    signal.signal(signal.SIGALRM, on_alarm)
    signal.alarm(budget)
    try:
        import common
        import torch
        torch.manual_seed(seed)
        import numpy as np
        np.random.seed(seed % (2 ** 32))
        mod = importlib.import_module("checks." + prop.lower())
        if replay:
            return mod.replay(replay) if hasattr(mod, "replay") else common_replay(replay)
        rng = random.Random(seed * 7919 + 17)
        res = common.Result(prop, tier, seed)
        known = common.load_known()
        audit = common.lean_build_and_audit(prop, thorough=(tier == "thorough"))
        spec = mod.run(res, rng, tier, known)
        if res.violations and all(ni for _, ni in res.violations) and not audit.get("build_failed"):
            # a correspondence (or obligation) broke but no input violated the property itself:
            # directed search for a concrete failing input with fresh seeds before giving the verdict
            t_search = time.time()
            for k in range(1, 4):
                if time.time() - t_search > (120 if tier == "quick" else 900):
                    break
                res2 = common.Result(prop, tier, seed)
                try:
                    mod.run(res2, random.Random(seed * 7919 + 17 + 1000003 * k), tier, known)
                except Exception:
                    break
                res.extra["directed_search_cases"] = res.extra.get("directed_search_cases", 0) + res2.evaluations
                found = [(p_, ni) for p_, ni in res2.violations if not ni]
                if found:
                    res.violations += found
                    break
        return common.finish(res, audit, spec["level"], spec["rule"], spec["assumptions"], known,
                             extra_cov=spec.get("extra"), thm_note=spec.get("not_by_theorem"))
    except Exception:
        traceback.print_exc()
        print("INFRASTRUCTURE-FAILURE %s" % prop)
        return 2


def common_replay(path):
    d = json.load(open(path))
    print(json.dumps(d, indent=1)[:4000])
    return 0


if __name__ == "__main__":
    sys.exit(main())
