#!/venv/bin/python
"""suite_confirm.py <seed_dir>…: run the repository's test-suite on a scratch worktree with the seed's patch applied; record the summary line in meta.json"""
import json, os, subprocess, sys, tempfile, shutil
from concurrent.futures import ThreadPoolExecutor
REPO = "/repo"


def one(seed):
    seed = os.path.abspath(seed)
    wt = tempfile.mkdtemp(prefix="ttverif_suite_", dir="/tmp"); os.rmdir(wt)
    try:
        subprocess.run(["git", "-C", REPO, "worktree", "add", "-q", "--detach", wt, "HEAD"], check=True, capture_output=True)
        p = subprocess.run(["git", "-C", wt, "apply", os.path.join(seed, "patch.diff")], capture_output=True, text=True)
        if p.returncode != 0:
            return seed, "patch does not apply"
        env = dict(os.environ, PYTHONPATH=wt, PYTHONDONTWRITEBYTECODE="1", OMP_NUM_THREADS="2", MKL_NUM_THREADS="2")
        p = subprocess.run(["/venv/bin/python", "-m", "pytest", "-q", "-p", "no:cacheprovider", "--timeout=900", "tests"], cwd=wt, env=env, capture_output=True, text=True, timeout=2400)
        tail = [l for l in (p.stdout + p.stderr).split("\n") if "passed" in l or "failed" in l]
        return seed, (tail[-1].strip() if tail else "rc=%d" % p.returncode)
    except Exception as e:
        return seed, "error: %s" % e
    finally:
        subprocess.run(["git", "-C", REPO, "worktree", "remove", "--force", wt], capture_output=True)
        shutil.rmtree(wt, ignore_errors=True)


with ThreadPoolExecutor(max_workers=4) as ex:
    for seed, line in ex.map(one, sys.argv[1:]):
        m = json.load(open(os.path.join(seed, "meta.json")))
        m["suite_patched"] = line
        json.dump(m, open(os.path.join(seed, "meta.json"), "w"), indent=1)
        print(os.path.basename(seed), line, flush=True)
