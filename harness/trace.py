"""Observation of local variables of a running function from outside (no source hook): `sys.settrace` with a line callback.

`LocalsTracer(func, {name: source-text pattern})` locates, in the current source of `func`, the lines that contain each pattern (comments
skipped) and calls `on(name, frame.f_locals)` just BEFORE each such line executes.  Patterns are matched against the source on every run,
so the observation follows harmless edits (shifted lines); if a pattern no longer occurs the tie reports it as broken."""
import inspect
import sys


class LocalsTracer:
    def __init__(self, func, points, on):
        src, first = inspect.getsourcelines(func)
        self.code = func.__code__
        self.where = {}
        self.missing = []
        for name, pat in points.items():
            hits = [first + i for i, l in enumerate(src) if pat in l and not l.strip().startswith("#")]
            if not hits:
                self.missing.append(name)
            for h in hits:
                self.where[h] = name
        self.on = on

    def _local(self, frame, event, arg):
        if event == "line":
            name = self.where.get(frame.f_lineno)
            if name is not None:
                self.on(name, frame.f_locals)
        return self._local

    def _global(self, frame, event, arg):
        if frame.f_code is self.code:
            return self._local
        return None

    def __enter__(self):
        self.prev = sys.gettrace()
        sys.settrace(self._global)
        return self

    def __exit__(self, *a):
        sys.settrace(self.prev)
