"""regenerate harness/theorems.json (the committed list of registered property theorems) from lean/TTProps/*.lean"""
import re, os, json, glob
HERE = os.path.dirname(os.path.abspath(__file__))
reg = {}
imports = []
wip = set()
if os.path.exists(os.path.join(HERE, "wip.txt")):
    wip = {l.strip() for l in open(os.path.join(HERE, "wip.txt")) if l.strip()}
for f in sorted(glob.glob(os.path.join(HERE, "..", "lean", "TTProps", "*.lean"))):
    if os.path.basename(f)[:-5] in wip:
        continue
    imports.append("import TTProps." + os.path.basename(f)[:-5])
    src = open(f).read()
    src = re.sub(r"/-.*?-/", "", src, flags=re.S)
    ns = None
    for ln in src.split("\n"):
        m = re.match(r"\s*namespace\s+(\S+)", ln)
        if m:
            ns = m.group(1)
        m = re.match(r"\s*(?:protected\s+)?theorem\s+(\S+)", ln)
        if m and ns:
            pm = re.search(r"\b(C\d\d)[a-z]?\b", ns.replace(".", " "))
            if pm:
                reg.setdefault(pm.group(1), []).append(ns + "." + m.group(1))
json.dump(reg, open(os.path.join(HERE, "theorems.json"), "w"), indent=1, sort_keys=True)
open(os.path.join(HERE, "..", "lean", "TTProps.lean"), "w").write("\n".join(imports) + "\n")
print({k: len(v) for k, v in sorted(reg.items())})
