"""Build the optional C++ backend (torchttcpp) from /repo/cpp into a cache directory keyed by the hash of the sources.
Returns the directory containing torchttcpp.so (to be put on sys.path), or raises.  The repo's own setup.py asks for
-std=c++17, which no longer compiles against the installed torch headers; -std=c++20 is used instead."""
import hashlib, os, subprocess, sys, sysconfig, glob

REPO = os.environ.get("TORCHTT_REPO", "/repo")
CACHE = os.path.join(os.path.dirname(os.path.dirname(os.path.abspath(__file__))), ".cppcache")


def build(verbose=False):
    from torch.utils.cpp_extension import include_paths, library_paths
    srcs = sorted(glob.glob(os.path.join(REPO, "cpp", "*")))
    h = hashlib.sha1()
    for f in srcs:
        h.update(os.path.basename(f).encode())
        h.update(open(f, "rb").read())
    key = h.hexdigest()[:16]
    out_dir = os.path.join(CACHE, key)
    so = os.path.join(out_dir, "torchttcpp.so")
    if os.path.exists(so):
        return out_dir
    os.makedirs(out_dir, exist_ok=True)
    inc = include_paths() + [sysconfig.get_paths()["include"]]
    libs = library_paths()
    cmd = ["g++", "-O2", "-std=c++20", "-shared", "-fPIC", "-w", "-Wno-narrowing", "-DTORCH_EXTENSION_NAME=torchttcpp",
           "-DTORCH_API_INCLUDE_EXTENSION_H", "-D_GLIBCXX_USE_CXX11_ABI=1"]
    for i in inc:
        cmd += ["-isystem", i]
    cmd += [os.path.join(REPO, "cpp", "cpp_ext.cpp"), "-o", so + ".tmp"]
    for l in libs:
        cmd += ["-L", l, "-Wl,-rpath," + l]
    cmd += ["-ltorch", "-ltorch_cpu", "-lc10", "-ltorch_python", "-lblas", "-llapack"]
    p = subprocess.run(cmd, capture_output=True, text=True, timeout=1500)
    if p.returncode != 0:
        raise RuntimeError("C++ backend does not build:\n" + p.stderr[-3000:])
    os.replace(so + ".tmp", so)
    # verification-only shim exposing ortho.h::rank_chop
    shim = os.path.join(os.path.dirname(os.path.abspath(__file__)), "cpp", "shim.cpp")
    so2 = os.path.join(out_dir, "ttverif_shim.so")
    cmd2 = [c for c in cmd]
    i = cmd2.index(os.path.join(REPO, "cpp", "cpp_ext.cpp"))
    cmd2[i] = shim
    cmd2[cmd2.index(so + ".tmp")] = so2
    cmd2 = [c.replace("-DTORCH_EXTENSION_NAME=torchttcpp", "-DTORCH_EXTENSION_NAME=ttverif_shim") for c in cmd2]
    cmd2.insert(1, "-I" + os.path.join(REPO, "cpp"))
    p2 = subprocess.run(cmd2, capture_output=True, text=True, timeout=1500)
    if p2.returncode != 0:
        raise RuntimeError("verification shim does not build:\n" + p2.stderr[-3000:])
    # keep only the newest two cache entries
    entries = sorted(glob.glob(os.path.join(CACHE, "*")), key=os.path.getmtime)
    for e in entries[:-2]:
        for f in glob.glob(os.path.join(e, "*")):
            os.remove(f)
        os.rmdir(e)
    return out_dir


if __name__ == "__main__":
    print(build(verbose=True))
