"""small helpers shared by the check modules"""
import types
import numpy as np
import torch as tn
import torchtt
from common import outcome_of
from gen import clone_any, dense_of, exact_equal, close


def J(*parts):
    out = []

    def rec(p):
        if isinstance(p, (list, tuple)):
            for q in p:
                rec(q)
        else:
            out.append(str(p))
    for p in parts:
        rec(p)
    return " ".join(out)


def boxed(f):
    """run `f` on *fresh clones* of the operands bound as lambda defaults, so that a case can never
    disturb the operands or expected values of another one"""
    box = {}
    defaults = f.__defaults__ or ()

    def impl():
        fresh = tuple(clone_any(v) for v in defaults)
        g = types.FunctionType(f.__code__, f.__globals__, f.__name__, fresh, f.__closure__)
        box["r"] = g()
        return outcome_of(box["r"])
    return box, impl


def chk_tt(box, dense_expected, dtype, ranks=None, N=None, M=None, is_ttm=None):
    def oracle():
        if "r" not in box:
            return "the operation raised instead of returning a TT"
        r = box["r"]
        if not isinstance(r, torchtt.TT):
            return "result is %s, not a TT" % type(r).__name__
        e = exact_equal(dense_of(r), dense_expected())
        if e:
            return "dense value differs: " + e
        if any(c.dtype != dtype for c in r.cores):
            return "dtype not preserved: %s vs operand %s" % ([str(c.dtype) for c in r.cores], dtype)
        if ranks is not None and [int(v) for v in r.R] != list(ranks):
            return "rank structure %s, documented %s" % (list(r.R), list(ranks))
        if N is not None and list(r.N) != list(N):
            return "shape %s, expected %s" % (list(r.N), list(N))
        if is_ttm is not None and bool(r.is_ttm) != bool(is_ttm):
            return "kind is_ttm=%s, expected %s" % (r.is_ttm, is_ttm)
        if M is not None and list(r.M) != list(M):
            return "row shape %s, expected %s" % (list(r.M), list(M))
        return None
    return oracle




def chk_val(box, expected, exact=True, tol=1e-12):
    """oracle for operations returning a number / dense array"""
    def oracle():
        if "r" not in box:
            return "the operation raised instead of returning a value"
        r = box["r"]
        if isinstance(r, torchtt.TT):
            return "result is a TT, expected a number/array"
        e = exact_equal(r, expected()) if exact else close(r, expected(), tol)
        return ("value differs: " + e) if e else None
    return oracle


def sdiv_inexact_cases(rng, x, dt, tag, n=3):
    """x / q for scalars q whose quotients are NOT exactly representable (3, 0.7, -1.9, 7) in every admissible form: python int/float, numpy
    scalar, 0-d / 1-element torch tensor of the operand's, a narrower (float32) or an integer dtype.  No model line (the model's quotient is an exact
    rational); the oracle is the strongest float statement available: the result is x with ONE core divided by the exact value of the scalar
    handed over, each entry correctly rounded (what a single division gives; a product with a rounded reciprocal does not), the other cores
    untouched, dtype and ranks preserved."""
    import numpy as np
    from common import Case
    real = dt if dt != tn.complex128 else tn.float64
    forms = [("int", lambda v: int(v) if float(v).is_integer() else float(v)), ("float", float), ("npfloat64", np.float64),
             ("tensor0d", lambda v: tn.tensor(float(v), dtype=real)), ("tensor1el", lambda v: tn.tensor([float(v)], dtype=real)),
             ("tensor0d-f32", lambda v: tn.tensor(float(v), dtype=tn.float32)), ("tensor1el-f32", lambda v: tn.tensor([float(v)], dtype=tn.float32)),
             ("tensor0d-i64", lambda v: tn.tensor(int(v)) if float(v).is_integer() else tn.tensor(float(v), dtype=real))]
    cases = []
    for _ in range(n):
        v = rng.choice([3, 7, 0.7, -1.9, 3.0, -6])
        kname, mk = rng.choice(forms)
        q = mk(v)
        q64 = float(q.to(tn.float64).reshape(-1)[0]) if tn.is_tensor(q) else float(q)
        box, impl = boxed(lambda x=x, q=q: x / q)

        def oracle(box=box, x=x, q64=q64, dt=dt, kname=kname):
            if "r" not in box:
                return "x / scalar raised (%s)" % kname
            r = box["r"]
            if not isinstance(r, torchtt.TT) or list(r.N) != list(x.N) or list(r.R) != list(x.R):
                return "x / scalar: shape or ranks changed"
            if any(c.dtype != dt for c in r.cores):
                return "x / scalar (%s): dtype not preserved: %s" % (kname, [str(c.dtype) for c in r.cores])
            changed = [k for k in range(len(x.cores)) if not tn.equal(r.cores[k], x.cores[k])]
            if len(changed) > 1:
                return "x / scalar changed %d cores" % len(changed)
            for k in changed:
                want = x.cores[k] / q64
                if not tn.equal(r.cores[k], want):
                    err = float(((r.cores[k] - want).abs() / want.abs().clamp_min(1e-300)).max())
                    return "x / scalar (%s, value %r): core %d is not the correctly rounded quotient (relative deviation %.3g)" % (kname, q64, k, err)
            if not changed and q64 != 1.0 and bool((dense_of(x) != 0).any()):
                return "x / scalar returned x unchanged although the tensor is not zero"
            return None
        cases.append(Case(None, impl, oracle, "sdiv-inexact/%s/%s" % (kname, tag), True, desc="x / %r (%s) x.N=%s dtype=%s" % (q64, kname, list(x.N), dt)))
    return cases
