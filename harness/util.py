"""small helpers shared by the check modules"""
import types
import numpy as np
import torch as tn
import torchtt
from common import outcome_of
from gen import clone_any, dense_of, exact_equal, close


def J(*parts):
    out = []

    def rec(p):
        if isinstance(p, (list, tuple)):
            for q in p:
                rec(q)
        else:
            out.append(str(p))
    for p in parts:
        rec(p)
    return " ".join(out)


def boxed(f):
    """run `f` on *fresh clones* of the operands bound as lambda defaults, so that a case can never
    disturb the operands or expected values of another one"""
    box = {}
    defaults = f.__defaults__ or ()

    def impl():
        fresh = tuple(clone_any(v) for v in defaults)
        g = types.FunctionType(f.__code__, f.__globals__, f.__name__, fresh, f.__closure__)
        box["r"] = g()
        return outcome_of(box["r"])
    return box, impl


def chk_tt(box, dense_expected, dtype, ranks=None, N=None, M=None, is_ttm=None):
    def oracle():
        if "r" not in box:
            return "the operation raised instead of returning a TT"
        r = box["r"]
        if not isinstance(r, torchtt.TT):
            return "result is %s, not a TT" % type(r).__name__
        e = exact_equal(dense_of(r), dense_expected())
        if e:
            return "dense value differs: " + e
        if any(c.dtype != dtype for c in r.cores):
            return "dtype not preserved: %s vs operand %s" % ([str(c.dtype) for c in r.cores], dtype)
        if ranks is not None and [int(v) for v in r.R] != list(ranks):
            return "rank structure %s, documented %s" % (list(r.R), list(ranks))
        if N is not None and list(r.N) != list(N):
            return "shape %s, expected %s" % (list(r.N), list(N))
        if is_ttm is not None and bool(r.is_ttm) != bool(is_ttm):
            return "kind is_ttm=%s, expected %s" % (r.is_ttm, is_ttm)
        if M is not None and list(r.M) != list(M):
            return "row shape %s, expected %s" % (list(r.M), list(M))
        return None
    return oracle




def chk_val(box, expected, exact=True, tol=1e-12):
    """oracle for operations returning a number / dense array"""
    def oracle():
        if "r" not in box:
            return "the operation raised instead of returning a value"
        r = box["r"]
        if isinstance(r, torchtt.TT):
            return "result is a TT, expected a number/array"
        e = exact_equal(r, expected()) if exact else close(r, expected(), tol)
        return ("value differs: " + e) if e else None
    return oracle
