"""small helpers shared by the check modules"""
import types
import numpy as np
import torch as tn
import torchtt
from common import outcome_of
from gen import clone_any, dense_of, exact_equal, close


def J(*parts):
    out = []

    def rec(p):
        if isinstance(p, (list, tuple)):
            for q in p:
                rec(q)
        else:
            out.append(str(p))
    for p in parts:
        rec(p)
    return " ".join(out)


def boxed(f):
    """run `f` on *fresh clones* of the operands bound as lambda defaults, so that a case can never
    disturb the operands or expected values of another one"""
    box = {}
    defaults = f.__defaults__ or ()

    def impl():
        fresh = tuple(clone_any(v) for v in defaults)
        g = types.FunctionType(f.__code__, f.__globals__, f.__name__, fresh, f.__closure__)
        first = g()
        out = outcome_of(first)
        # the same call once more on the SAME operand objects: the oracles look at this second result, so an operation that is right the
        # first time but disturbs its operands (or hidden state) fails its own value oracle; the model is compared with the first outcome
        box["r"] = g()
        box["r_first"] = first
        return out
    return box, impl


def chk_tt(box, dense_expected, dtype, ranks=None, N=None, M=None, is_ttm=None):
    def oracle():
        if "r" not in box:
            return "the operation raised instead of returning a TT"
        r = box["r"]
        if not isinstance(r, torchtt.TT):
            return "result is %s, not a TT" % type(r).__name__
        e = exact_equal(dense_of(r), dense_expected())
        if e:
            return "dense value differs: " + e
        if any(c.dtype != dtype for c in r.cores):
            return "dtype not preserved: %s vs operand %s" % ([str(c.dtype) for c in r.cores], dtype)
        if ranks is not None and [int(v) for v in r.R] != list(ranks):
            return "rank structure %s, documented %s" % (list(r.R), list(ranks))
        if N is not None and list(r.N) != list(N):
            return "shape %s, expected %s" % (list(r.N), list(N))
        if is_ttm is not None and bool(r.is_ttm) != bool(is_ttm):
            return "kind is_ttm=%s, expected %s" % (r.is_ttm, is_ttm)
        if M is not None and list(r.M) != list(M):
            return "row shape %s, expected %s" % (list(r.M), list(M))
        return None
    return oracle




def chk_val(box, expected, exact=True, tol=1e-12):
    """oracle for operations returning a number / dense array"""
    def oracle():
        if "r" not in box:
            return "the operation raised instead of returning a value"
        r = box["r"]
        if isinstance(r, torchtt.TT):
            return "result is a TT, expected a number/array"
        e = exact_equal(r, expected()) if exact else close(r, expected(), tol)
        return ("value differs: " + e) if e else None
    return oracle


def sdiv_inexact_cases(rng, x, dt, tag, n=3):
    """x / q for scalars q whose quotients are NOT exactly representable (3, 0.7, -1.9, 7) in every admissible form: python int/float, numpy
    scalar, 0-d / 1-element torch tensor of the operand's, a narrower (float32) or an integer dtype.  No model line (the model's quotient is an exact
    rational); the oracle is the strongest float statement available: the result is x with ONE core divided by the exact value of the scalar
    handed over, each entry correctly rounded (what a single division gives; a product with a rounded reciprocal does not), the other cores
    untouched, dtype and ranks preserved."""
    import numpy as np
    from common import Case
    real = dt if dt != tn.complex128 else tn.float64
    forms = [("int", lambda v: int(v) if float(v).is_integer() else float(v)), ("float", float), ("npfloat64", np.float64),
             ("tensor0d", lambda v: tn.tensor(float(v), dtype=real)), ("tensor1el", lambda v: tn.tensor([float(v)], dtype=real)),
             ("tensor0d-f32", lambda v: tn.tensor(float(v), dtype=tn.float32)), ("tensor1el-f32", lambda v: tn.tensor([float(v)], dtype=tn.float32)),
             ("tensor0d-i64", lambda v: tn.tensor(int(v)) if float(v).is_integer() else tn.tensor(float(v), dtype=real))]
    cases = []
    for _ in range(n):
        v = rng.choice([3, 7, 0.7, -1.9, 3.0, -6])
        kname, mk = rng.choice(forms)
        q = mk(v)
        q64 = float(q.to(tn.float64).reshape(-1)[0]) if tn.is_tensor(q) else float(q)
        box, impl = boxed(lambda x=x, q=q: x / q)

        def oracle(box=box, x=x, q64=q64, dt=dt, kname=kname):
            if "r" not in box:
                return "x / scalar raised (%s)" % kname
            r = box["r"]
            if not isinstance(r, torchtt.TT) or list(r.N) != list(x.N) or list(r.R) != list(x.R):
                return "x / scalar: shape or ranks changed"
            if any(c.dtype != dt for c in r.cores):
                return "x / scalar (%s): dtype not preserved: %s" % (kname, [str(c.dtype) for c in r.cores])
            changed = [k for k in range(len(x.cores)) if not tn.equal(r.cores[k], x.cores[k])]
            if len(changed) > 1:
                return "x / scalar changed %d cores" % len(changed)
            for k in changed:
                want = x.cores[k] / q64
                if not tn.equal(r.cores[k], want):
                    err = float(((r.cores[k] - want).abs() / want.abs().clamp_min(1e-300)).max())
                    return "x / scalar (%s, value %r): core %d is not the correctly rounded quotient (relative deviation %.3g)" % (kname, q64, k, err)
            if not changed and q64 != 1.0 and bool((dense_of(x) != 0).any()):
                return "x / scalar returned x unchanged although the tensor is not zero"
            return None
        cases.append(Case(None, impl, oracle, "sdiv-inexact/%s/%s" % (kname, tag), True, desc="x / %r (%s) x.N=%s dtype=%s" % (q64, kname, list(x.N), dt)))
    return cases


def scalar_inexact_cases(rng, x, dt, tag, n=4):
    """x (+,-,*) s and s (+,-,*) x for scalars that are NOT exactly representable in lower precision (0.1, pi, 1/3, -12345.678) in every
    admissible form (python float, numpy float64, 0-d / 1-element torch tensor of the operand's real dtype, complex for complex operands).
    No model line (inexact); oracle: dense value within a few ulp of the operand's dtype, dtype and shape preserved — a scalar that takes a
    detour through a narrower dtype is off by ~1e-8 and fails."""
    import math
    import numpy as np
    from common import Case
    real = dt if dt != tn.complex128 else tn.float64
    tol = 1e-5 if dt in (tn.float32, tn.complex64) else 1e-13
    vals = [0.1, math.pi, 1.0 / 3.0, -12345.678]
    forms = [("float", float), ("npfloat64", np.float64), ("tensor0d", lambda v: tn.tensor(v, dtype=real)), ("tensor1el", lambda v: tn.tensor([v], dtype=real))]
    if dt == tn.complex128:
        forms.append(("complex", lambda v: complex(v, -0.7 * v)))
    dx = dense_of(x)
    cases = []
    for _ in range(n):
        v = rng.choice(vals)
        kname, mk = rng.choice(forms)
        s = mk(v)
        sv = complex(s) if isinstance(s, complex) else float(s.reshape(-1)[0]) if tn.is_tensor(s) else float(s)
        opname, f, dn = rng.choice([("add", lambda x, s: x + s, lambda dx, sv: dx + sv), ("radd", lambda x, s: s + x, lambda dx, sv: sv + dx),
                                    ("sub", lambda x, s: x - s, lambda dx, sv: dx - sv), ("rsub", lambda x, s: s - x, lambda dx, sv: sv - dx),
                                    ("mul", lambda x, s: x * s, lambda dx, sv: dx * sv), ("rmul", lambda x, s: s * x, lambda dx, sv: sv * dx)])
        if kname == "tensor1el" and opname in ("radd", "rsub", "rmul"):
            opname, f, dn = "add", (lambda x, s: x + s), (lambda dx, sv: dx + sv)      # tensor.__add__(TT) is torch's business, not torchtt's
        if kname in ("tensor0d",) and opname in ("radd", "rsub", "rmul"):
            opname, f, dn = "mul", (lambda x, s: x * s), (lambda dx, sv: dx * sv)
        box, impl = boxed(lambda x=x, s=s, f=f: f(x, s))

        def oracle(box=box, dn=dn, sv=sv, opname=opname, kname=kname, x=x):
            if "r" not in box:
                return "x %s scalar raised (%s)" % (opname, kname)
            r = box["r"]
            if not isinstance(r, torchtt.TT) or r.is_ttm != x.is_ttm or list(r.N) != list(x.N):
                return "x %s scalar: kind or shape changed" % opname
            if any(c.dtype != dt for c in r.cores):
                return "x %s scalar (%s): dtype not preserved: %s" % (opname, kname, [str(c.dtype) for c in r.cores])
            exp = dn(dx, sv)
            err = float((dense_of(r) - exp).abs().max())
            scale = max(float(exp.abs().max()), abs(sv) if not isinstance(sv, complex) else abs(sv), 1e-300)
            if not (err <= tol * scale):      # NaN-safe
                return "x %s %r (%s): dense value off by %.3g relative (scalar rounded to a narrower precision?)" % (opname, sv, kname, err / scale)
            return None
        cases.append(Case(None, impl, oracle, "scalar-inexact/%s/%s/%s" % (opname, kname, tag), True,
                          desc="x %s %r (%s) kind=%s N=%s dtype=%s" % (opname, sv, kname, "ttm" if x.is_ttm else "tt", list(x.N), dt)))
    return cases


DT_NAMES = {"f32": tn.float32, "f64": tn.float64, "c64": tn.complex64, "c128": tn.complex128}


def dtype_cases(rng, ops, label, nops=(2,)):
    """all ordered dtype tuples for the given operations: the result dtype (one dtype for all cores) is compared with the Lean model
    `DType.promoteAll` (driver op `promote`), the dense value with the promoted dense expression (exact: small integer entries).
    ops: list of (name, tt_fn(list of TT) -> TT, dense_fn(list of dense) -> dense, N_of(list of N) )"""
    import itertools
    from common import Case
    from gen import rand_tt, rand_ranks, dense_of, exact_equal
    cases = []
    names = list(DT_NAMES)
    for n in nops:
        for combo in itertools.product(names, repeat=n):
            if n == 3 and rng.random() < 0.75:
                continue
            for opname, tt_fn, dn_fn, mkN in ops:
                d = rng.choice([1, 2, 3])
                Ns = mkN(rng, d, n)
                xs = [rand_tt(rng, Ns[i], rand_ranks(rng, d, 2), DT_NAMES[combo[i]]) for i in range(n)]
                box = {}

                def impl(xs=xs, tt_fn=tt_fn, box=box):
                    r = tt_fn([torchtt.TT([c.clone() for c in x.cores]) for x in xs])
                    box["r"] = r
                    dts = {c.dtype for c in r.cores}
                    inv = {v: k for k, v in DT_NAMES.items()}
                    return "dt " + (inv.get(next(iter(dts)), "other") if len(dts) == 1 else "mixed")

                def oracle(xs=xs, dn_fn=dn_fn, box=box, combo=combo):
                    if "r" not in box:
                        return "the operation raised for operands of dtypes %s" % (combo,)
                    wide = DT_NAMES[combo[0]]
                    for c in combo[1:]:
                        wide = tn.promote_types(wide, DT_NAMES[c])
                    exp = dn_fn([dense_of(x).to(wide) for x in xs])
                    got = dense_of(box["r"])
                    if got.dtype != wide:
                        return "dense value has dtype %s, the dense expression gives %s" % (got.dtype, wide)
                    e = exact_equal(got, exp)
                    return ("dense value differs for dtypes %s: %s" % (combo, e)) if e else None
                cases.append(Case(J("promote", n, *combo), impl, oracle, "%s/dtypes-%s/%s" % (label, opname, "-".join(combo)), True,
                                  desc="%s on operands of dtypes %s" % (opname, combo), gauge_ok=False))
    return cases
